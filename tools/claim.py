#!/usr/bin/env python3
import json,sys,os
root=os.path.dirname(os.path.dirname(os.path.abspath(__file__)))
p=os.path.join(root,'tools','claims.json'); c=json.load(open(p))
pid,text=sys.argv[1],sys.argv[2]
note=sys.argv[3] if len(sys.argv)>3 else "Trusted: go/ssa construction, the gose interpreter and its models listed in evidence.assumptions (validated on every run by replaying sampled solver models natively and comparing observation logs and outcomes), z3 4.8.12. Bounds and what lies outside them: evidence.coverage.bounds / outside_claim."
c['claimed'][pid]={"text":text,"note":note}
c['not_applicable'].pop(pid,None)
json.dump(c,open(p,'w'),indent=1)
os.system('python3 '+os.path.join(root,'tools','mkmanifest.py'))
