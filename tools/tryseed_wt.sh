#!/bin/bash
# usage: tools/tryseed_wt.sh <patch.diff> <ID> [harness]
# Tries a seeded change without touching /repo or /verif's evidence: a scratch worktree of /repo
# HEAD gets the patch, a scratch copy of /verif's harnesses/known findings is used as VERIF_DIR, and
# the engine is pointed at the worktree with GOSE_REPO. Results are printed, never kept as evidence.
set -u
export GOFLAGS=-mod=mod GOPROXY=off GOSUMDB=off GOTOOLCHAIN=local
patch="$1"; id="$2"; h="${3:-}"
wt=/tmp/tryseed-wt-$$; vd=/tmp/tryseed-verif-$$
git -C /repo worktree add --detach "$wt" HEAD >/dev/null 2>&1 || { echo "worktree failed"; exit 2; }
trap 'git -C /repo worktree remove --force "$wt" >/dev/null 2>&1; rm -rf "$vd"' EXIT
git -C "$wt" apply "$patch" || { echo "patch does not apply"; exit 2; }
mkdir -p "$vd/gose"; cp -r /verif/harness "$vd/"; cp /verif/known_findings.json "$vd/"; cp /verif/gose/gose "$vd/gose/gose"
args=(check "$id"); [ -n "$h" ] && args+=(--harness "$h")
GOSE_REPO="$wt" VERIF_DIR="$vd" timeout 2400 "$vd/gose/gose" "${args[@]}" 2>&1 | grep -E "^VIOLATION|^harness|^OK|^INCONCL|^FATAL|harness=|^KNOWN" | cut -c1-250 | head -10
