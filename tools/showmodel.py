#!/usr/bin/env python3
"""Pretty-print replay models: groups name_len/name_i inputs into byte strings."""
import json, sys, re
for f in sys.argv[1:]:
    r = json.load(open(f)); m = r['model']
    names = {}
    for k, v in m.items():
        mm = re.match(r'(.+)_(\d+)$', k)
        if mm and (mm.group(1) + '_len') in m:
            names.setdefault(mm.group(1), {})[int(mm.group(2))] = int(v, 16)
    out = []
    for k, v in sorted(m.items()):
        mm = re.match(r'(.+)_(\d+)$', k)
        if mm and mm.group(1) in names: continue
        if k.endswith('_len') and k[:-4] in names or k.endswith('_len'):
            base = k[:-4]; n = int(v, 16)
            out.append('%s=%s' % (base, ''.join('%02x' % names.get(base, {}).get(i, 0) for i in range(n)) or '""'))
        else:
            out.append('%s=%s' % (k, v))
    print(r.get('harness'), r.get('label'), '|', ' '.join(out), '|', r.get('native_outcome', ''))
