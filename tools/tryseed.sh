#!/bin/bash
# usage: tools/tryseed.sh <patch.diff> <ID> [tier]   -- applies a seeded change to /repo, runs the check, reverts.
set -u
patch="$1"; id="$2"; tier="${3:-quick}"
git -C /repo diff --quiet || { echo "/repo has uncommitted changes"; exit 2; }
git -C /repo apply "$patch" || { echo "patch does not apply"; exit 2; }
/verif/check "$id" "$tier" > /tmp/tryseed.log 2>&1; rc=$?
git -C /repo checkout -- . ; git -C /repo clean -fdq
cp /verif/evidence/$id.json /tmp/tryseed.evidence.json 2>/dev/null
git -C /verif checkout -- evidence/$id.json 2>/dev/null
git -C /verif clean -fdq evidence/replays 2>/dev/null
echo "exit=$rc"; grep -E "^VIOLATION|^  harness|^INCONCLUSIVE|^OK|^FATAL" /tmp/tryseed.log | cut -c1-220 | head -12
