#!/bin/bash
# usage: tools/keepseed.sh <srcdir> <seed-id> <property> "<what it needs>" "<caught-by or MISSED>"
src="$1"; id="$2"; prop="$3"; needs="$4"; caught="$5"
dst=/verif/seeded/$id; mkdir -p "$dst"
cp "$src/patch.diff" "$dst/"; cp "$src"/*_test.go "$dst/" 2>/dev/null; cp "$src/demo_path.txt" "$dst/" 2>/dev/null; cp "$src/notes.md" "$dst/" 2>/dev/null
python3 - "$dst" "$prop" "$needs" "$caught" <<'PY'
import json,sys
dst,prop,needs,caught=sys.argv[1:5]
json.dump({"property":prop,"needs_to_manifest":needs,
 "confirmed_by":"tools/confirm_seed.sh (scratch worktree of /repo HEAD: demo passes without patch, fails with patch, touched packages' existing tests pass with patch)",
 "check_result":caught,
 "ran":["tools/confirm_seed.sh "+dst,"tools/tryseed.sh "+dst+"/patch.diff "+prop+" quick"]},open(dst+"/meta.json","w"),indent=1)
PY
echo kept $dst
