#!/usr/bin/env python3
"""Regenerates /verif/MANIFEST.json from tools/claims.json (claimed properties) and
properties.jsonl (everything else goes to not_applicable with its recorded reason)."""
import json, os, sys
root = os.path.dirname(os.path.dirname(os.path.abspath(__file__)))
claims = json.load(open(os.path.join(root, 'tools', 'claims.json')))
props = [json.loads(l) for l in open(os.path.join(root, 'properties.jsonl'))]
baseline = json.load(open('/root/.vp/BASELINE.json'))['cmd'] if os.path.exists('/root/.vp/BASELINE.json') else ''
checks, na = [], []
for p in props:
    pid = p['id']
    c = claims['claimed'].get(pid)
    if c and os.path.exists(os.path.join(root, 'harness', pid, 'spec.json')):
        checks.append({
            "property_id": pid,
            "quick_cmd": "./check %s quick" % pid,
            "thorough_cmd": "./check %s thorough" % pid,
            "evidence_file": "/verif/evidence/%s.json" % pid,
            "replay_cmd_template": "./check %s --replay {path}" % pid,
            "engine": "gose",
            "level_claimed": {"category": "model_checking", "text": c['text'], "design_ref": c.get('design_ref', 'DESIGN.md §4 ' + pid)},
            "level_note": c['note'],
            "technique": c.get('technique', "bounded symbolic execution of the real Go code (go/ssa -> SMT-LIB2 bit-vectors), every assertion and branch decided by an SMT solver (z3 5.1.0, undecided queries re-asked on cvc5 1.0 and z3 4.8.12) for all inputs within the stated bounds; counterexamples replayed natively against the real build"),
        })
    else:
        na.append({"property_id": pid, "reason": claims['not_applicable'].get(pid, "no solver-based check registered for this property yet (see DESIGN.md)")})
m = {
    "version": 1,
    "setup_cmd": "cd /verif/gose && GOFLAGS=-mod=mod GOPROXY=off GOSUMDB=off GOTOOLCHAIN=local go build -o gose .",
    "hooks": {
        "guard": "verif",
        "enable": "none needed: harnesses and the vrt helper package are injected with go/packages and `go test` overlays; /repo is never modified by a check",
        "baseline_off_cmd": baseline,
        "source_commits": [],
        "add_only": True,
    },
    "engines": [{
        "name": "gose", "path": "/verif/gose",
        "serves_properties": [c['property_id'] for c in checks],
        "kind_free_text": "symbolic interpreter for go/ssa (x/tools v0.29.0) written for this task: scalars are SMT bit-vector terms, heap concrete, stateless DFS over decision prefixes with 16 workers, one z3-new -in per worker (cvc5/z3 4.8.12 fall-back); every assertion/branch is an SMT query; models replayed natively via go test -overlay",
    }],
    "checks": checks,
    "not_applicable": na,
    "notes": claims.get('notes', ''),
}
json.dump(m, open(os.path.join(root, 'MANIFEST.json'), 'w'), indent=1)
print("MANIFEST: %d checks, %d not_applicable" % (len(checks), len(na)))
