#!/bin/bash
# usage: tools/confirm_seed.sh <dir with patch.diff, demo_path.txt, demo test files>
# Confirms in a scratch worktree of /repo HEAD: patch applies, package tests of the touched package still
# pass with the patch, the demonstration fails with the patch and passes without it.
set -u
export GOFLAGS=-mod=mod GOPROXY=off GOSUMDB=off GOTOOLCHAIN=local
d="$1"; wt=/tmp/seedwt-$$
git -C /repo worktree add --detach "$wt" HEAD >/dev/null 2>&1 || { echo "worktree failed"; exit 2; }
trap 'git -C /repo worktree remove --force "$wt" >/dev/null 2>&1' EXIT
cd "$wt"
git apply --check "$d/patch.diff" || { echo "RESULT patch does not apply"; exit 1; }
# place demos
demos=()
while read -r line; do
  [ -z "$line" ] && continue
  # formats: "path" or "file -> path" or "file: path"
  p=$(echo "$line" | sed -E 's/.*(->|:)\s*//; s/^\s+//; s/\s+$//' | grep -oE '[A-Za-z0-9_./-]+_test\.go' | head -1)
  [ -z "$p" ] && continue
  f=$(basename "$p")
  src="$d/$f"; [ -f "$src" ] || src=$(ls "$d"/*_test.go | head -1)
  mkdir -p "$(dirname "$p")"; cp "$src" "$p"; demos+=("$p")
done < "$d/demo_path.txt"
[ ${#demos[@]} -eq 0 ] && { echo "RESULT no demo placed"; exit 1; }
pkgs=$(for p in "${demos[@]}"; do echo "./$(dirname "$p")/"; done | sort -u)
run=$(grep -ohE 'func (Test[A-Za-z0-9_]+)' "${demos[@]}" | awk '{print $2}' | paste -sd'|')
echo "demo tests: $run in $pkgs"
go test -vet=off -count=1 -run "^($run)\$" $pkgs > /tmp/seed_nopatch.log 2>&1; r0=$?
git apply "$d/patch.diff"
go test -vet=off -count=1 -run "^($run)\$" $pkgs > /tmp/seed_patch.log 2>&1; r1=$?
# existing tests of the touched packages (exclude demo) with the patch
touched=$(git diff --name-only | xargs -n1 dirname | sort -u | sed 's|^|./|; s|$|/|')
for p in "${demos[@]}"; do rm -f "$p"; done
go test -vet=off -count=1 $touched > /tmp/seed_existing.log 2>&1; r2=$?
echo "RESULT demo_without_patch=$r0 (want 0) demo_with_patch=$r1 (want !=0) existing_tests_with_patch=$r2 (want 0)"
[ $r0 -eq 0 ] && [ $r1 -ne 0 ] && [ $r2 -eq 0 ]
