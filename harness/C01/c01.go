package inmemory

import (
	vrt "github.com/ChainSafe/gossamer/internal/zzverif/vrt"
	"github.com/ChainSafe/gossamer/lib/common"
	"github.com/ChainSafe/gossamer/pkg/trie"
)

// ---------------------------------------------------------------------------------------
// Reference: the Polkadot state-trie Merkle root of a key/value list, written from the
// specification (radix-16 trie; node = header | partial key | [children bitmap] | value |
// children; nodes shorter than 32 bytes are inlined in their parent; the root is always hashed;
// state version 1 stores values longer than 32 bytes by their BLAKE2b-256 hash).

type zzEntry struct {
	nib []byte // key in nibbles
	val []byte
}

func zzToNibbles(k []byte) []byte {
	n := make([]byte, 0, 2*len(k))
	for _, b := range k {
		n = append(n, b>>4, b&0x0f)
	}
	return n
}

func zzPackNibbles(n []byte) []byte {
	var out []byte
	i := 0
	if len(n)%2 == 1 {
		out = append(out, n[0])
		i = 1
	}
	for ; i < len(n); i += 2 {
		out = append(out, n[i]<<4|n[i+1])
	}
	return out
}

func zzCompactLen(x int) []byte {
	switch {
	case x < 1<<6:
		return []byte{byte(x) << 2}
	case x < 1<<14:
		v := x<<2 | 1
		return []byte{byte(v), byte(v >> 8)}
	}
	v := x<<2 | 2
	return []byte{byte(v), byte(v >> 8), byte(v >> 16), byte(v >> 24)}
}

func zzHeader(variant byte, bits uint, pkLen int) []byte {
	// variant occupies the top `bits` bits; the remaining bits hold the partial key length,
	// continued in 0xff-terminated bytes when it does not fit
	max := (1 << (8 - bits)) - 1
	if pkLen < max {
		return []byte{variant | byte(pkLen)}
	}
	out := []byte{variant | byte(max)}
	rest := pkLen - max
	for rest >= 255 {
		out = append(out, 255)
		rest -= 255
	}
	return append(out, byte(rest))
}

func zzBlake(b []byte) []byte {
	h, err := common.Blake2bHash(b)
	if err != nil {
		panic(err)
	}
	return h.ToBytes()
}

// zzEncodeNode encodes the node for entries es (all sharing their first `depth` nibbles).
func zzEncodeNode(es []zzEntry, depth int, v1 bool) []byte {
	if len(es) == 1 {
		e := es[0]
		pk := e.nib[depth:]
		hashed := v1 && len(e.val) > 32
		var enc []byte
		if hashed {
			enc = zzHeader(0b0010_0000, 3, len(pk))
		} else {
			enc = zzHeader(0b0100_0000, 2, len(pk))
		}
		enc = append(enc, zzPackNibbles(pk)...)
		if hashed {
			return append(enc, zzBlake(e.val)...)
		}
		enc = append(enc, zzCompactLen(len(e.val))...)
		return append(enc, e.val...)
	}
	// longest common prefix beyond depth (keys are concrete-length nibble strings; their
	// contents are equal on the common prefix by construction of the groups)
	cp := len(es[0].nib) - depth
	for _, e := range es[1:] {
		n := 0
		for n < cp && depth+n < len(e.nib) && e.nib[depth+n] == es[0].nib[depth+n] { // forks
			n++
		}
		cp = n
	}
	pk := es[0].nib[depth : depth+cp]
	var own *zzEntry
	var groups [16][]zzEntry
	for i := range es {
		e := es[i]
		if len(e.nib) == depth+cp {
			own = &es[i]
			continue
		}
		c := vrt.Concretize(int(e.nib[depth+cp])) // child index (forks over the feasible nibbles)
		groups[c] = append(groups[c], e)
	}
	var enc []byte
	hashed := own != nil && v1 && len(own.val) > 32
	switch {
	case own == nil:
		enc = zzHeader(0b1000_0000, 2, len(pk))
	case hashed:
		enc = zzHeader(0b0001_0000, 4, len(pk))
	default:
		enc = zzHeader(0b1100_0000, 2, len(pk))
	}
	enc = append(enc, zzPackNibbles(pk)...)
	var bitmap uint16
	for c := 0; c < 16; c++ {
		if len(groups[c]) > 0 {
			bitmap |= 1 << uint(c)
		}
	}
	enc = append(enc, byte(bitmap), byte(bitmap>>8))
	if own != nil {
		if hashed {
			enc = append(enc, zzBlake(own.val)...)
		} else {
			enc = append(enc, zzCompactLen(len(own.val))...)
			enc = append(enc, own.val...)
		}
	}
	for c := 0; c < 16; c++ {
		if len(groups[c]) == 0 {
			continue
		}
		child := zzEncodeNode(groups[c], depth+cp+1, v1)
		if len(child) >= 32 {
			child = zzBlake(child)
		}
		enc = append(enc, zzCompactLen(len(child))...)
		enc = append(enc, child...)
	}
	return enc
}

func zzSpecRoot(es []zzEntry, v1 bool) []byte {
	if len(es) == 0 {
		return zzBlake([]byte{0})
	}
	return zzBlake(zzEncodeNode(es, 0, v1))
}

// ---------------------------------------------------------------------------------------

func zzKeyC01(name string, maxLen int) []byte {
	n := vrt.Range(name+"_len", 0, maxLen)
	b := vrt.Bytes(name, n)
	a := byte(vrt.Param("alpha", 2))
	for _, x := range b {
		vrt.Assume(vrt.And(x&0x0f < a, x>>4 < a))
	}
	return b
}

// value lengths around the inline/hash limits
var zzValLens = []int{0, 1, 28, 29, 30, 31, 32, 33} // 28..30 make child encodings of exactly 32 bytes

// ZZ_C01_root: after any history of puts (with overwrites) and one optional delete, the root
// equals the specification root of the final map, for both state versions.
func ZZ_C01_root() {
	v1 := vrt.Bool("v1")
	t := NewEmptyTrie()
	if v1 {
		t.SetVersion(trie.V1)
	}
	nk := vrt.Param("nkeys", 3)
	ml := vrt.Param("maxlen", 2)
	type kv struct{ k, v []byte }
	var final []kv
	put := func(k, v []byte) {
		for i := range final {
			if vrt.BytesEq(final[i].k, k) { // forks
				final[i].v = v
				return
			}
		}
		final = append(final, kv{k, v})
	}
	for i := 0; i < nk; i++ {
		sfx := string(rune('0' + i))
		k := zzKeyC01("k"+sfx, ml)
		v := vrt.Bytes("v"+sfx, zzValLens[vrt.Choice("vlen"+sfx, vrt.Param("vlens", len(zzValLens)))])
		err := t.Put(k, v)
		vrt.Assert("put_ok", err == nil)
		put(k, v)
	}
	if vrt.Param("delete", 1) == 1 && vrt.Bool("do_delete") {
		i := vrt.Choice("del", nk)
		// delete one of the inserted keys (deleting absent prefix keys is known finding T2 of C02)
		var dk []byte
		cnt := 0
		for j := range final {
			if cnt == i {
				dk = final[j].k
			}
			cnt++
		}
		if dk == nil {
			vrt.Assume(false)
		}
		err := t.Delete(dk)
		vrt.Assert("delete_ok", err == nil)
		for j := range final {
			if vrt.BytesEq(final[j].k, dk) {
				final = append(final[:j:j], final[j+1:]...)
				break
			}
		}
	}
	var es []zzEntry
	for _, e := range final {
		es = append(es, zzEntry{zzToNibbles(e.k), e.v})
	}
	var got common.Hash
	var err error
	if v1 {
		got, err = trie.V1.Hash(t)
	} else {
		got, err = trie.V0.Hash(t)
	}
	vrt.Assert("hash_ok", err == nil)
	want := zzSpecRoot(es, v1)
	vrt.Assert("root_equals_spec_root", vrt.BytesEq(got[:], want))
	vrt.Reach("end")
}
