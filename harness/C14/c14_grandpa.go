package grandpa

import (
	vrt "github.com/ChainSafe/gossamer/internal/zzverif/vrt"
	"github.com/ChainSafe/gossamer/lib/common"
	"github.com/ChainSafe/gossamer/pkg/scale"
)

func zzLEg14(x uint64, n int) []byte {
	b := make([]byte, n)
	for i := range b {
		b[i] = byte(x >> (8 * uint(i)))
	}
	return b
}

// ZZ_C14_justification: a GRANDPA justification (round, commit target, 0..2 signed precommits)
// encodes as round u64 LE, target hash, number u32 LE, compact count and the concatenated signed
// votes, and decodes back.
func ZZ_C14_justification() {
	var target common.Hash
	copy(target[:], vrt.Bytes("target", 32))
	round, num := vrt.U64("round"), vrt.U32("number")
	n := vrt.Range("precommits", 0, vrt.Param("maxprecommits", 2))
	ref := append(append(zzLEg14(round, 8), target[:]...), zzLEg14(uint64(num), 4)...)
	ref = append(ref, byte(n<<2))
	var pcs []SignedVote
	for i := 0; i < n; i++ {
		sfx := string(rune('0' + i))
		var sv SignedVote
		copy(sv.Vote.Hash[:], vrt.Bytes("h"+sfx, 32))
		sv.Vote.Number = vrt.U32("n" + sfx)
		copy(sv.Signature[:], vrt.Bytes("sig"+sfx, 64))
		copy(sv.AuthorityID[:], vrt.Bytes("id"+sfx, 32))
		pcs = append(pcs, sv)
		ref = append(append(append(append(ref, sv.Vote.Hash[:]...), zzLEg14(uint64(sv.Vote.Number), 4)...), sv.Signature[:]...), sv.AuthorityID[:]...)
	}
	j := newJustification(round, target, num, pcs)
	enc, err := scale.Marshal(*j)
	vrt.Assert("justification_marshal_ok", err == nil)
	vrt.Observe("lens", len(enc), len(ref))
	vrt.Assert("justification_encoding_matches_reference", len(enc) == len(ref) && vrt.BytesEq(enc, ref))
	var dec Justification
	vrt.Assert("justification_unmarshal_ok", scale.Unmarshal(enc, &dec) == nil)
	vrt.Assert("justification_roundtrip_head", vrt.And(dec.Round == round, vrt.And(dec.Commit.Hash == target, dec.Commit.Number == num)))
	vrt.Assert("justification_roundtrip_count", len(dec.Commit.Precommits) == n)
	if len(dec.Commit.Precommits) == n {
		for i := range pcs {
			d := dec.Commit.Precommits[i]
			vrt.Assert("justification_roundtrip_vote", vrt.And(vrt.And(d.Vote.Hash == pcs[i].Vote.Hash, d.Vote.Number == pcs[i].Vote.Number),
				vrt.And(d.Signature == pcs[i].Signature, d.AuthorityID == pcs[i].AuthorityID)))
		}
	}
	vrt.Reach("end")
}
