package types

import (
	vrt "github.com/ChainSafe/gossamer/internal/zzverif/vrt"
	"github.com/ChainSafe/gossamer/lib/common"
	"github.com/ChainSafe/gossamer/pkg/scale"
)

// ---- independent reference encoder (SCALE as specified: fixed-width little endian integers,
// compact integers, length-prefixed sequences, one index byte for enumerations)

func zzCompact14(n uint32) []byte {
	switch {
	case n >= 1<<30: // big-integer mode: 4 bytes follow
		return []byte{0x03, byte(n), byte(n >> 8), byte(n >> 16), byte(n >> 24)}
	case n < 1<<6:
		return []byte{byte(n << 2)}
	case n < 1<<14:
		x := n<<2 | 1
		return []byte{byte(x), byte(x >> 8)}
	default:
		x := n<<2 | 2
		return []byte{byte(x), byte(x >> 8), byte(x >> 16), byte(x >> 24)}
	}
}

func zzLE14(x uint64, n int) []byte {
	b := make([]byte, n)
	for i := range b {
		b[i] = byte(x >> (8 * uint(i)))
	}
	return b
}

func zzHash14(name string) common.Hash {
	var h common.Hash
	copy(h[:], vrt.Bytes(name, 32))
	return h
}

func zzSameBytes14(a, b []byte) bool {
	return len(a) == len(b) && vrt.BytesEq(a, b)
}

// ZZ_C14_header: a header with symbolic hashes, number and 0..2 digest items of any
// spec-defined kind encodes byte for byte as the reference, decodes back to equal fields, and
// its hash is BLAKE2b-256 of the encoding.
func ZZ_C14_header() {
	ph, sr, er := zzHash14("parent"), zzHash14("state"), zzHash14("extr")
	num := vrt.U32("number")
	d := NewDigest()
	ref := append(append(append(append([]byte{}, ph[:]...), zzCompact14(num)...), sr[:]...), er[:]...)
	n := vrt.Range("items", 0, vrt.Param("maxitems", 2))
	ref = append(ref, zzCompact14(uint32(n))...)
	for i := 0; i < n; i++ {
		sfx := string(rune('0' + i))
		var eng ConsensusEngineID
		copy(eng[:], vrt.Bytes("engine"+sfx, 4))
		data := vrt.Bytes("data"+sfx, vrt.Range("datalen"+sfx, 0, 3))
		body := append(append(append([]byte{}, eng[:]...), zzCompact14(uint32(len(data)))...), data...)
		switch vrt.Choice("kind"+sfx, 4) {
		case 0:
			vrt.Assert("add_ok", d.Add(PreRuntimeDigest{ConsensusEngineID: eng, Data: data}) == nil)
			ref = append(append(ref, 6), body...)
		case 1:
			vrt.Assert("add_ok", d.Add(ConsensusDigest{ConsensusEngineID: eng, Data: data}) == nil)
			ref = append(append(ref, 4), body...)
		case 2:
			vrt.Assert("add_ok", d.Add(SealDigest{ConsensusEngineID: eng, Data: data}) == nil)
			ref = append(append(ref, 5), body...)
		case 3:
			vrt.Assert("add_ok", d.Add(RuntimeEnvironmentUpdated{}) == nil)
			ref = append(ref, 8)
		}
	}
	h := NewHeader(ph, sr, er, uint(num), d)
	enc, err := scale.Marshal(*h)
	vrt.Assert("header_marshal_ok", err == nil)
	vrt.Observe("lens", len(enc), len(ref))
	vrt.Assert("header_encoding_matches_reference", zzSameBytes14(enc, ref))
	dec := NewEmptyHeader()
	vrt.Assert("header_unmarshal_ok", scale.Unmarshal(enc, dec) == nil)
	vrt.Assert("header_roundtrip_fields", vrt.And(vrt.And(dec.ParentHash == ph, dec.StateRoot == sr),
		vrt.And(dec.ExtrinsicsRoot == er, dec.Number == uint(num))))
	vrt.Assert("header_roundtrip_digest_len", len(dec.Digest) == n)
	enc2, err := scale.Marshal(*dec)
	vrt.Assert("header_reencode", err == nil && zzSameBytes14(enc2, enc))
	vrt.Assert("header_hash_is_blake2b_of_encoding", h.Hash() == common.MustBlake2bHash(ref))
	vrt.Reach("end")
}

// ZZ_C14_babe_predigest: the three BABE pre-digests encode as index byte + fields and decode back.
func ZZ_C14_babe_predigest() {
	ai, slot := vrt.U32("authority"), vrt.U64("slot")
	var out [32]byte
	var proof [64]byte
	copy(out[:], vrt.Bytes("vrfout", 32))
	copy(proof[:], vrt.Bytes("vrfproof", 64))
	base := append(zzLE14(uint64(ai), 4), zzLE14(slot, 8)...)
	vrfPart := append(append([]byte{}, out[:]...), proof[:]...)
	var pd *PreRuntimeDigest
	var err error
	var ref []byte
	kind := vrt.Choice("kind", 3)
	switch kind {
	case 0:
		pd, err = NewBabePrimaryPreDigest(ai, slot, out, proof).ToPreRuntimeDigest()
		ref = append(append([]byte{1}, base...), vrfPart...)
	case 1:
		pd, err = NewBabeSecondaryPlainPreDigest(ai, slot).ToPreRuntimeDigest()
		ref = append([]byte{2}, base...)
	case 2:
		pd, err = NewBabeSecondaryVRFPreDigest(ai, slot, out, proof).ToPreRuntimeDigest()
		ref = append(append([]byte{3}, base...), vrfPart...)
	}
	vrt.Assert("predigest_ok", err == nil && pd != nil)
	vrt.Assert("predigest_engine", pd.ConsensusEngineID == BabeEngineID)
	vrt.Assert("predigest_encoding_matches_reference", zzSameBytes14(pd.Data, ref))
	got, err := DecodeBabePreDigest(pd.Data)
	vrt.Assert("predigest_decode_ok", err == nil)
	switch v := got.(type) {
	case BabePrimaryPreDigest:
		vrt.Assert("predigest_roundtrip", vrt.And(kind == 0, vrt.And(vrt.And(v.AuthorityIndex == ai, v.SlotNumber == slot), vrt.And(v.VRFOutput == out, v.VRFProof == proof))))
	case BabeSecondaryPlainPreDigest:
		vrt.Assert("predigest_roundtrip", vrt.And(kind == 1, vrt.And(v.AuthorityIndex == ai, v.SlotNumber == slot)))
	case BabeSecondaryVRFPreDigest:
		vrt.Assert("predigest_roundtrip", vrt.And(kind == 2, vrt.And(vrt.And(v.AuthorityIndex == ai, v.SlotNumber == slot), vrt.And(v.VrfOutput == out, v.VrfProof == proof))))
	default:
		vrt.Assert("predigest_roundtrip", false)
	}
	vrt.Reach("end")
}

// ZZ_C14_grandpa_votes: GRANDPA votes, signed votes and equivocation proofs encode as the
// concatenation of their fixed-width fields and decode back.
func ZZ_C14_grandpa_votes() {
	v1 := GrandpaVote{Hash: zzHash14("h1"), Number: vrt.U32("n1")}
	var sig [64]byte
	copy(sig[:], vrt.Bytes("sig", 64))
	var id [32]byte
	copy(id[:], vrt.Bytes("id", 32))
	sv := GrandpaSignedVote{Vote: v1, Signature: sig, AuthorityID: id}
	enc, err := scale.Marshal(sv)
	vrt.Assert("vote_marshal_ok", err == nil)
	ref := append(append(append(append([]byte{}, v1.Hash[:]...), zzLE14(uint64(v1.Number), 4)...), sig[:]...), id[:]...)
	vrt.Assert("signed_vote_encoding_matches_reference", zzSameBytes14(enc, ref))
	var dec GrandpaSignedVote
	vrt.Assert("vote_unmarshal_ok", scale.Unmarshal(enc, &dec) == nil)
	vrt.Assert("signed_vote_roundtrip", vrt.And(vrt.And(dec.Vote.Hash == v1.Hash, dec.Vote.Number == v1.Number),
		vrt.And(dec.Signature == sig, dec.AuthorityID == sv.AuthorityID)))
	// a body of 0..2 extrinsics
	n := vrt.Range("extrinsics", 0, 2)
	var exts []Extrinsic
	bref := zzCompact14(uint32(n))
	for i := 0; i < n; i++ {
		sfx := string(rune('0' + i))
		e := vrt.Bytes("ext"+sfx, vrt.Range("extlen"+sfx, 0, 2))
		exts = append(exts, Extrinsic(e))
		bref = append(append(bref, zzCompact14(uint32(len(e)))...), e...)
	}
	body := NewBody(exts)
	benc, err := scale.Marshal(*body)
	vrt.Assert("body_marshal_ok", err == nil)
	vrt.Assert("body_encoding_matches_reference", zzSameBytes14(benc, bref))
	bdec, err := NewBodyFromBytes(benc)
	vrt.Assert("body_decode_ok", err == nil && bdec != nil && len(*bdec) == n)
	if bdec != nil && len(*bdec) == n {
		for i := range exts {
			vrt.Assert("body_roundtrip", zzSameBytes14((*bdec)[i], exts[i]))
		}
	}
	vrt.Reach("end")
}
