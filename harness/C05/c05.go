package proof

import (
	"github.com/ChainSafe/gossamer/internal/database"
	"github.com/ChainSafe/gossamer/internal/zzverif/kv"
	vrt "github.com/ChainSafe/gossamer/internal/zzverif/vrt"
	"github.com/ChainSafe/gossamer/pkg/trie"
	"github.com/ChainSafe/gossamer/pkg/trie/inmemory"
)

func zzKey05(name string, minLen, maxLen int) []byte {
	n := vrt.Range(name+"_len", minLen, maxLen)
	b := vrt.Bytes(name, n)
	a := byte(vrt.Param("alpha", 2))
	for _, x := range b {
		vrt.Assume(vrt.And(x&0x0f < a, x>>4 < a))
	}
	return b
}

func zzLess05(a, b []byte) bool {
	n := len(a)
	if len(b) < n {
		n = len(b)
	}
	res := len(a) < len(b)
	for i := n - 1; i >= 0; i-- {
		res = vrt.Or(a[i] < b[i], vrt.And(a[i] == b[i], res))
	}
	return res
}

func zzVal05(name string) []byte {
	lens := []int{1, 33}
	return vrt.Bytes(name, lens[vrt.Choice(name+"_len", len(lens))])
}

// ZZ_C05_read_proof: a state of symbolic keys is stored, a read proof is generated from the
// database for a stored key, and then (a) it verifies that key with its value and rejects any
// other value, and (b) whatever the verifier is asked - a symbolic key and value, against the
// generated nodes with an arbitrary extra node added or a node dropped - it only confirms pairs
// that are in the state.
func ZZ_C05_read_proof() {
	ml := vrt.Param("maxlen", 2)
	db := database.NewTable(kv.New(), "storage")
	tr := inmemory.NewEmptyTrie()
	if vrt.Bool("v1") {
		tr.SetVersion(trie.V1)
	}
	var keys, vals [][]byte
	for i := 0; i < vrt.Param("nkeys", 2); i++ {
		sfx := string(rune('0' + i))
		k := zzKey05("k"+sfx, 0, ml)
		if i > 0 {
			vrt.Assume(zzLess05(keys[i-1], k))
		}
		v := zzVal05("v" + sfx)
		vrt.Assert("put_ok", tr.Put(k, v) == nil)
		keys, vals = append(keys, k), append(vals, v)
	}
	root := tr.MustHash()
	vrt.Assert("write_ok", tr.WriteDirty(db) == nil)
	pi := vrt.Choice("proved", len(keys))
	proof, err := Generate(root[:], [][]byte{keys[pi]}, db)
	vrt.Assert("generate_ok", err == nil && len(proof) > 0)
	if err != nil {
		return
	}
	// (a) completeness for the proved key
	vrt.Assert("proof_confirms_stored_value", Verify(proof, root[:], keys[pi], vals[pi]) == nil)
	other := vrt.Bytes("other", len(vals[pi]))
	vrt.Assume(vrt.Not(vrt.BytesEq(other, vals[pi])))
	vrt.Assert("proof_rejects_other_value", Verify(proof, root[:], keys[pi], other) != nil)
	// (b) soundness under manipulated node sets
	nodes := proof
	switch vrt.Choice("manipulation", 3) {
	case 1:
		junk := vrt.Bytes("junk", vrt.Range("junk_len", 0, 3))
		nodes = append([][]byte{junk}, proof...)
	case 2:
		nodes = proof[:len(proof)-1]
	}
	q := zzKey05("q", 0, ml)
	w := vrt.Bytes("w", []int{0, 1, 33}[vrt.Choice("w_len", 3)])
	inState := -1
	strictPrefixOfStored := false
	for i, k := range keys {
		if len(k) == len(q) && vrt.BytesEq(k, q) { // forks
			inState = i
		}
		if len(q) < len(k) && vrt.BytesEq(k[:len(q)], q) {
			strictPrefixOfStored = true
		}
	}
	vrt.Ghost("kf_query_strict_prefix_of_stored", strictPrefixOfStored && inState < 0)
	verr := Verify(nodes, root[:], q, w)
	vrt.Observe("verify", verr != nil, inState, len(w))
	if verr == nil {
		vrt.Assert("confirmed_key_is_in_state", inState >= 0)
		if inState >= 0 && len(w) > 0 {
			vrt.Assert("confirmed_value_is_state_value", len(w) == len(vals[inState]) && vrt.BytesEq(w, vals[inState]))
		}
	}
	vrt.Reach("end")
}
