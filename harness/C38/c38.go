package modules

import (
	"github.com/ChainSafe/gossamer/dot/state"
	"github.com/ChainSafe/gossamer/internal/zzverif/kv"
	vrt "github.com/ChainSafe/gossamer/internal/zzverif/vrt"
	"github.com/ChainSafe/gossamer/lib/common"
	"github.com/ChainSafe/gossamer/lib/runtime/storage"
	inmemory_trie "github.com/ChainSafe/gossamer/pkg/trie/inmemory"
)

// zzStorage38 is the real storage state; only the block-hash -> state-root lookup (which needs a
// block state) is replaced.
type zzStorage38 struct {
	*state.InmemoryStorageState
	root common.Hash
}

func (s *zzStorage38) GetStateRootFromBlock(*common.Hash) (*common.Hash, error) {
	r := s.root
	return &r, nil
}

func zzKey38(name string, minLen, maxLen int) []byte {
	n := vrt.Range(name+"_len", minLen, maxLen)
	b := vrt.Bytes(name, n)
	a := byte(vrt.Param("alpha", 2))
	for _, x := range b {
		vrt.Assume(vrt.And(x&0x0f < a, x>>4 < a))
	}
	return b
}

func zzLess38(a, b []byte) bool {
	n := len(a)
	if len(b) < n {
		n = len(b)
	}
	res := len(a) < len(b)
	for i := n - 1; i >= 0; i-- {
		res = vrt.Or(a[i] < b[i], vrt.And(a[i] == b[i], res))
	}
	return res
}

func zzHasPrefix38(k, p []byte) bool {
	if len(p) > len(k) {
		return false
	}
	return vrt.BytesEq(k[:len(p)], p)
}

// zzSetup38 stores a state of nkeys ascending distinct symbolic keys through the storage state.
func zzSetup38() (*StateModule, *zzStorage38, [][]byte, [][]byte) {
	nk := vrt.Param("nkeys", 3)
	ml := vrt.Param("maxlen", 2)
	ss, err := state.NewStorageState(kv.New(), nil, state.NewTries())
	vrt.Assert("setup_ok", err == nil)
	tr := inmemory_trie.NewEmptyTrie()
	var keys, vals [][]byte
	for i := 0; i < nk; i++ {
		sfx := string(rune('0' + i))
		k := zzKey38("k"+sfx, 0, ml)
		if i > 0 {
			vrt.Assume(zzLess38(keys[i-1], k))
		}
		v := vrt.Bytes("v"+sfx, 1)
		vrt.Assert("put_ok", tr.Put(k, v) == nil)
		keys = append(keys, k)
		vals = append(vals, v)
	}
	root := tr.MustHash()
	vrt.Assert("store_ok", ss.StoreTrie(storage.NewTrieState(tr), nil) == nil)
	st := &zzStorage38{InmemoryStorageState: ss, root: root}
	return NewStateModule(nil, st, nil, nil), st, keys, vals
}

func zzZeroLow38(p []byte) bool {
	if len(p) == 0 {
		return false
	}
	return p[len(p)-1]&0x0f == 0
}

// ZZ_C38_keys_paged: requesting page after page (each after the last key returned) enumerates
// exactly the keys with the prefix, ascending, each once.
func ZZ_C38_keys_paged() {
	sm, st, keys, _ := zzSetup38()
	p := zzKey38("p", 0, vrt.Param("maxlen", 2))
	vrt.Ghost("kf_p_zero_low", zzZeroLow38(p))
	qty := uint32(vrt.Range("qty", 1, len(keys)))
	var want []string
	for _, k := range keys { // keys are ascending
		if zzHasPrefix38(k, p) { // forks
			want = append(want, common.BytesToHex(k))
		}
	}
	var got []string
	after := ""
	for page := 0; page <= len(keys); page++ {
		var res StateStorageKeysResponse
		req := &StateStorageKeyRequest{Prefix: common.BytesToHex(p), Qty: qty, AfterKey: after, Block: &st.root}
		err := sm.GetKeysPaged(nil, req, &res)
		vrt.Assert("paged_no_error", err == nil)
		vrt.Assert("page_size", uint32(len(res)) <= qty)
		got = append(got, res...)
		if uint32(len(res)) < qty {
			break
		}
		after = res[len(res)-1]
	}
	vrt.Observe("counts", len(got), len(want))
	vrt.Assert("paged_count", len(got) == len(want))
	if len(got) == len(want) {
		for i := range got {
			vrt.Assert("paged_keys_in_order", got[i] == want[i])
		}
	}
	vrt.Reach("end")
}

// ZZ_C38_pairs: the key/value listing for a prefix returns exactly the keys with the prefix and
// their current values (in any order).
func ZZ_C38_pairs() {
	sm, _, keys, vals := zzSetup38()
	p := zzKey38("p", 0, vrt.Param("maxlen", 2))
	vrt.Ghost("kf_p_zero_low", zzZeroLow38(p))
	var res StatePairResponse
	var bh common.Hash
	req := &StatePairRequest{Bhash: &bh}
	switch vrt.Choice("prefix_form", 3) {
	case 0:
		s := common.BytesToHex(p)
		req.Prefix = &s
	case 1:
		vrt.Assume(len(p) == 0)
		s := ""
		req.Prefix = &s
	case 2:
		vrt.Assume(len(p) == 0)
	}
	err := sm.GetPairs(nil, req, &res)
	vrt.Assert("pairs_no_error", err == nil)
	nwant := 0
	for i, k := range keys {
		if !zzHasPrefix38(k, p) { // forks
			continue
		}
		nwant++
		hk, hv := common.BytesToHex(k), common.BytesToHex(vals[i])
		found := false
		for _, r := range res {
			pair, ok := r.([]string)
			if !ok || len(pair) != 2 {
				vrt.Assert("pairs_shape", false)
				continue
			}
			found = vrt.Or(found, vrt.And(pair[0] == hk, pair[1] == hv))
		}
		vrt.Assert("pairs_complete", found)
	}
	vrt.Observe("counts", len(res), nwant)
	vrt.Assert("pairs_count", len(res) == nwant)
	vrt.Reach("end")
}
