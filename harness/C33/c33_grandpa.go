package grandpa

import (
	"github.com/ChainSafe/gossamer/dot/network"
	vrt "github.com/ChainSafe/gossamer/internal/zzverif/vrt"
)

// ZZ_C33_grandpa_message: any byte string received as a GRANDPA consensus message decodes to a
// message or an error without panicking and with bounded allocation; a decoded message
// re-encodes to bytes that decode to the same message again.
func ZZ_C33_grandpa_message() {
	vrt.AllocLimit(1 << 20)
	n := vrt.Range("n", 0, vrt.Param("maxlen", 40))
	data := vrt.Bytes("in", n)
	m, err := decodeMessage(&network.ConsensusMessage{Data: data})
	vrt.Observe("decoded", err != nil)
	if err != nil {
		vrt.Reach("rejected")
		return
	}
	vrt.Assert("decoded_message_not_nil", m != nil)
	cm, err := m.ToConsensusMessage()
	vrt.Assert("reencode_ok", err == nil && cm != nil)
	m2, err := decodeMessage(cm)
	vrt.Assert("redecode_ok", err == nil && m2 != nil)
	cm2, err := m2.ToConsensusMessage()
	vrt.Assert("reencode2_ok", err == nil && cm2 != nil)
	vrt.Assert("roundtrip_stable", len(cm.Data) == len(cm2.Data) && vrt.BytesEq(cm.Data, cm2.Data))
	vrt.Reach("accepted")
	vrt.Reach("end")
}
