package network

import (
	vrt "github.com/ChainSafe/gossamer/internal/zzverif/vrt"
)

func zzStable33(label string, enc func() ([]byte, error), dec func([]byte) (func() ([]byte, error), error)) {
	e1, err := enc()
	vrt.Assert(label+"_reencode_ok", err == nil)
	enc2, err := dec(e1)
	vrt.Assert(label+"_redecode_ok", err == nil)
	if err != nil {
		return
	}
	e2, err := enc2()
	vrt.Assert(label+"_reencode2_ok", err == nil)
	vrt.Assert(label+"_roundtrip_stable", len(e1) == len(e2) && vrt.BytesEq(e1, e2))
}

// ZZ_C33_block_announce: arbitrary bytes as a block announcement.
func ZZ_C33_block_announce() {
	vrt.AllocLimit(1 << 20)
	// a fixed 96-byte region holds the three hashes; the interesting bytes follow the parent hash
	// (compact number) and the extrinsics root (digest)
	n := vrt.Range("n", vrt.Param("minlen", 0), vrt.Param("maxlen", 110))
	data := vrt.Bytes("in", n)
	var m BlockAnnounceMessage
	err := m.Decode(data)
	vrt.Observe("decoded", err != nil)
	if err != nil {
		vrt.Reach("rejected")
		return
	}
	zzStable33("announce", m.Encode, func(b []byte) (func() ([]byte, error), error) {
		var m2 BlockAnnounceMessage
		err := m2.Decode(b)
		if err == nil {
			vrt.Assert("announce_redecodes_to_equal_message", vrt.And(vrt.And(m2.ParentHash == m.ParentHash, m2.Number == m.Number),
				vrt.And(vrt.And(m2.StateRoot == m.StateRoot, m2.ExtrinsicsRoot == m.ExtrinsicsRoot), vrt.And(m2.BestBlock == m.BestBlock, len(m2.Digest) == len(m.Digest)))))
		}
		return m2.Encode, err
	})
	vrt.Reach("end")
}

// ZZ_C33_handshake_and_transactions: arbitrary bytes as a block-announce handshake and as a
// transaction message.
func ZZ_C33_handshake_and_transactions() {
	vrt.AllocLimit(1 << 20)
	n := vrt.Range("n", 0, vrt.Param("maxlen", 70))
	data := vrt.Bytes("in", n)
	switch vrt.Choice("kind", 2) {
	case 0:
		var hs BlockAnnounceHandshake
		err := hs.Decode(data)
		vrt.Observe("decoded", err != nil)
		if err != nil {
			vrt.Reach("rejected")
			return
		}
		zzStable33("handshake", hs.Encode, func(b []byte) (func() ([]byte, error), error) {
			var h2 BlockAnnounceHandshake
			err := h2.Decode(b)
			if err == nil {
				vrt.Assert("handshake_redecodes_to_equal_message", vrt.And(vrt.And(h2.Roles == hs.Roles, h2.BestBlockNumber == hs.BestBlockNumber),
					vrt.And(h2.BestBlockHash == hs.BestBlockHash, h2.GenesisHash == hs.GenesisHash)))
			}
			return h2.Encode, err
		})
	case 1:
		vrt.Assume(n <= vrt.Param("maxtxlen", 12))
		var tm TransactionMessage
		err := tm.Decode(data)
		vrt.Observe("decoded", err != nil)
		if err != nil {
			vrt.Reach("rejected")
			return
		}
		zzStable33("transactions", tm.Encode, func(b []byte) (func() ([]byte, error), error) {
			var t2 TransactionMessage
			err := t2.Decode(b)
			if err == nil {
				vrt.Assert("transactions_redecode_count", len(t2.Extrinsics) == len(tm.Extrinsics))
				if len(t2.Extrinsics) == len(tm.Extrinsics) {
					for i := range tm.Extrinsics {
						vrt.Assert("transactions_redecode_to_equal_message", len(t2.Extrinsics[i]) == len(tm.Extrinsics[i]) && vrt.BytesEq(t2.Extrinsics[i], tm.Extrinsics[i]))
					}
				}
			}
			return t2.Encode, err
		})
	}
	vrt.Reach("end")
}
