package state

import (
	"encoding/json"
	"time"

	"github.com/ChainSafe/gossamer/dot/types"
	"github.com/ChainSafe/gossamer/internal/zzverif/kv"
	vrt "github.com/ChainSafe/gossamer/internal/zzverif/vrt"
	"github.com/ChainSafe/gossamer/lib/common"
)

type zzNoTelemetry36 struct{}

func (zzNoTelemetry36) SendMessage(json.Marshaler) {}

func zzHeader36(parent *types.Header, tag byte) *types.Header {
	dg := types.NewDigest()
	pd, err := types.NewBabeSecondaryPlainPreDigest(0, uint64(100+int(tag))).ToPreRuntimeDigest()
	if err != nil {
		panic(err)
	}
	if err := dg.Add(*pd); err != nil {
		panic(err)
	}
	return &types.Header{ParentHash: parent.Hash(), Number: parent.Number + 1, Digest: dg, StateRoot: common.Hash{tag}}
}

func zzAuths36(id uint64) []types.GrandpaAuthoritiesRaw {
	var key [32]byte
	key[0] = 1
	return []types.GrandpaAuthoritiesRaw{{Key: key, ID: id}}
}

// ZZ_C36_crash_prefix: blocks are imported, a scheduled authority change is announced, and two
// blocks are finalised one after the other (the first finalisation applies the change), all on a
// database that logs its write groups (a flushed batch is one group). The process stops after a
// symbolic prefix of the groups; the block state and grandpa state are re-opened from the
// database rebuilt from that prefix. The restart succeeds, the finalised head's header and body
// are readable, the finalised round is not older than what the prefix had recorded, and the current
// set id has its authority list and activation block.
func ZZ_C36_crash_prefix() {
	db := kv.New()
	genesis := &types.Header{Number: 0, Digest: types.NewDigest(), StateRoot: common.Hash{0xf0}}
	bs, err := NewBlockStateFromGenesis(db, NewTries(), genesis, zzNoTelemetry36{})
	vrt.Assert("genesis_ok", err == nil && bs != nil)
	if bs == nil {
		return
	}
	gs, err := NewGrandpaStateFromGenesis(db, bs, []types.GrandpaVoter{}, zzNoTelemetry36{})
	vrt.Assert("grandpa_genesis_ok", err == nil)
	genesisGroups := len(db.Log)
	h1 := zzHeader36(genesis, 1)
	h2 := zzHeader36(h1, 2)
	for i, h := range []*types.Header{h1, h2} {
		vrt.Assert("addblock_ok", bs.AddBlockWithArrivalTime(&types.Block{Header: *h, Body: types.Body{}}, time.Unix(int64(1000+i), 0)) == nil)
	}
	d := types.NewGrandpaConsensusDigest()
	vrt.Assert("digest_ok", d.SetValue(types.GrandpaScheduledChange{Auths: zzAuths36(101), Delay: 0}) == nil)
	vrt.Assert("announce_ok", gs.HandleGRANDPADigest(h1, d) == nil)
	// finalise block 1 (round 1): head moves, then the scheduled change is applied
	vrt.Assert("finalise1_ok", bs.SetFinalisedHash(h1.Hash(), 1, 0) == nil)
	vrt.Assert("apply1_ok", gs.ApplyScheduledChanges(h1) == nil)
	vrt.Assert("round1_ok", gs.SetLatestRound(1) == nil)
	// finalise block 2 (round 2)
	vrt.Assert("finalise2_ok", bs.SetFinalisedHash(h2.Hash(), 2, 1) == nil)
	vrt.Assert("apply2_ok", gs.ApplyScheduledChanges(h2) == nil)
	vrt.Assert("round2_ok", gs.SetLatestRound(2) == nil)

	total := len(db.Log)
	cut := genesisGroups + vrt.Range("crash_after", 0, total-genesisGroups)
	db2 := kv.New()
	for _, g := range db.Log[:cut] {
		db2.Apply(g)
	}
	vrt.Observe("crash", cut-genesisGroups, total-genesisGroups)
	bs2, err := NewBlockState(db2, NewTries(), zzNoTelemetry36{})
	vrt.Assert("restart_block_state_ok", err == nil && bs2 != nil)
	if bs2 == nil {
		return
	}
	head, err := bs2.GetHighestFinalisedHeader()
	vrt.Assert("finalised_head_header_readable", err == nil && head != nil)
	if head == nil {
		return
	}
	vrt.Observe("head", head.Number)
	body, err := bs2.GetBlockBody(head.Hash())
	vrt.Assert("finalised_head_body_readable", err == nil && body != nil)
	byNum, err := bs2.db.Get(headerHashKey(uint64(head.Number)))
	vrt.Assert("finalised_head_found_by_number", err == nil && common.BytesToHash(byNum) == head.Hash())
	gs2 := NewGrandpaState(db2, bs2, zzNoTelemetry36{})
	cur, err := gs2.GetCurrentSetID()
	vrt.Assert("current_set_id_readable", err == nil)
	auths, err := gs2.GetAuthorities(cur)
	vrt.Observe("set", cur, err != nil)
	vrt.Assert("current_set_has_authorities", err == nil && (cur == 0 || len(auths) == 1))
	_, err = gs2.GetSetIDChange(cur)
	vrt.Assert("current_set_has_activation_block", err == nil)
	vrt.Reach("end")
}
