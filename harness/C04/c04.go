package state

import (
	"github.com/ChainSafe/gossamer/dot/state/pruner"
	"github.com/ChainSafe/gossamer/internal/database"
	"github.com/ChainSafe/gossamer/internal/zzverif/kv"
	vrt "github.com/ChainSafe/gossamer/internal/zzverif/vrt"
	"github.com/ChainSafe/gossamer/lib/runtime/storage"
	"github.com/ChainSafe/gossamer/pkg/trie"
	inmemory_trie "github.com/ChainSafe/gossamer/pkg/trie/inmemory"
)

func zzKey04(name string, minLen, maxLen int) []byte {
	n := vrt.Range(name+"_len", minLen, maxLen)
	b := vrt.Bytes(name, n)
	a := byte(vrt.Param("alpha", 2))
	for _, x := range b {
		vrt.Assume(vrt.And(x&0x0f < a, x>>4 < a))
	}
	return b
}

func zzLess04(a, b []byte) bool {
	n := len(a)
	if len(b) < n {
		n = len(b)
	}
	res := len(a) < len(b)
	for i := n - 1; i >= 0; i-- {
		res = vrt.Or(a[i] < b[i], vrt.And(a[i] == b[i], res))
	}
	return res
}

func zzVal04(name string) []byte {
	lens := []int{1, 33}
	return vrt.Bytes(name, lens[vrt.Choice(name+"_len", len(lens))])
}

func zzNewStorage04() (*InmemoryStorageState, *kv.DB) {
	db := kv.New()
	return &InmemoryStorageState{
		tries:  NewTries(),
		db:     database.NewTable(db, storagePrefix),
		pruner: &pruner.ArchiveNode{},
	}, db
}

// zzBuild04 builds a trie of nkeys ascending distinct symbolic keys, of either state version.
func zzBuild04(nk int) (*inmemory_trie.InMemoryTrie, [][]byte, [][]byte) {
	ml := vrt.Param("maxlen", 2)
	tr := inmemory_trie.NewEmptyTrie()
	if vrt.Bool("v1") {
		tr.SetVersion(trie.V1)
	}
	var keys, vals [][]byte
	for i := 0; i < nk; i++ {
		sfx := string(rune('0' + i))
		k := zzKey04("k"+sfx, 0, ml)
		if i > 0 {
			vrt.Assume(zzLess04(keys[i-1], k))
		}
		v := zzVal04("v" + sfx)
		vrt.Assert("put_ok", tr.Put(k, v) == nil)
		keys = append(keys, k)
		vals = append(vals, v)
	}
	return tr, keys, vals
}

// zzSameValue: got equals want, where want == nil means absent.
func zzSameValue04(got, want []byte) bool {
	if want == nil {
		return got == nil
	}
	return vrt.And(got != nil, vrt.BytesEq(got, want))
}

// ZZ_C04_store_reload: a state written to the database and reloaded by root hash has the same
// root and contents; single keys read directly from the database agree with the in-memory state.
func ZZ_C04_store_reload() {
	s, _ := zzNewStorage04()
	tr, keys, vals := zzBuild04(vrt.Param("nkeys", 2))
	root := tr.MustHash()
	vrt.Assert("store_ok", s.StoreTrie(storage.NewTrieState(tr), nil) == nil)
	s.tries.delete(root)
	q := zzKey04("q", 0, vrt.Param("maxlen", 2))
	want := tr.Get(q)
	// direct single-key read from the database
	got, err := s.GetStorage(&root, q)
	vrt.Observe("direct", err != nil, got == nil, want == nil, len(got), len(want))
	vrt.Assert("direct_read_ok", err == nil)
	vrt.Assert("direct_read_value", zzSameValue04(got, want))
	// full reload
	lt, err := s.LoadFromDB(root)
	vrt.Assert("reload_ok", err == nil && lt != nil)
	if lt == nil {
		return
	}
	vrt.Assert("reload_root", lt.MustHash() == root)
	for i, k := range keys {
		vrt.Assert("reload_value", zzSameValue04(lt.Get(k), vals[i]))
	}
	vrt.Assert("reload_query", zzSameValue04(lt.Get(q), want))
	vrt.Assert("reload_entries", len(lt.Entries()) == len(keys))
	vrt.Reach("end")
}

// ZZ_C04_incremental: a second state derived from the first (as a block's state is from its
// parent's) is written incrementally (dirty nodes only); both states reload with their own
// root and contents.
func ZZ_C04_incremental() {
	s, _ := zzNewStorage04()
	tr, keys, vals := zzBuild04(vrt.Param("nkeys", 2))
	root1 := tr.MustHash()
	vrt.Assert("store_ok", s.StoreTrie(storage.NewTrieState(tr), nil) == nil)
	ts, err := s.TrieState(&root1)
	vrt.Assert("open_ok", err == nil && ts != nil)
	if ts == nil {
		return
	}
	w := zzKey04("w", 0, vrt.Param("maxlen", 2))
	var wv []byte
	switch vrt.Choice("op", 2) {
	case 0:
		wv = zzVal04("wv")
		vrt.Assert("put_ok", ts.Put(w, wv) == nil)
	case 1:
		vrt.Assert("delete_ok", ts.Delete(w) == nil)
	}
	root2 := ts.Trie().MustHash()
	vrt.Assert("store_ok", s.StoreTrie(ts, nil) == nil)
	s.tries.delete(root1)
	s.tries.delete(root2)
	l2, err := s.LoadFromDB(root2)
	vrt.Assert("reload2_ok", err == nil && l2 != nil)
	if l2 == nil {
		return
	}
	vrt.Assert("reload2_root", l2.MustHash() == root2)
	vrt.Assert("reload2_written", zzSameValue04(l2.Get(w), wv))
	for i, k := range keys {
		if vrt.BytesEq(k, w) { // forks
			continue
		}
		vrt.Assert("reload2_kept", zzSameValue04(l2.Get(k), vals[i]))
		g, err := s.GetStorage(&root2, k)
		vrt.Assert("direct2_kept", vrt.And(err == nil, zzSameValue04(g, vals[i])))
	}
	l1, err := s.LoadFromDB(root1)
	vrt.Assert("reload1_ok", err == nil && l1 != nil)
	if l1 == nil {
		return
	}
	vrt.Assert("reload1_root", l1.MustHash() == root1)
	for i, k := range keys {
		vrt.Assert("reload1_value", zzSameValue04(l1.Get(k), vals[i]))
	}
	vrt.Reach("end")
}

// ZZ_C04_child_tries: a state with a child trie reloads with the same child trie.
func ZZ_C04_child_tries() {
	s, _ := zzNewStorage04()
	tr, keys, vals := zzBuild04(vrt.Param("nkeys", 1))
	child := inmemory_trie.NewEmptyTrie()
	if vrt.Bool("child_v1") {
		child.SetVersion(trie.V1)
	}
	ck := zzKey04("ck", 0, 1)
	cv := zzVal04("cv")
	vrt.Assert("put_ok", child.Put(ck, cv) == nil)
	keyToChild := []byte("c")
	vrt.Assert("setchild_ok", tr.SetChild(keyToChild, child) == nil)
	croot := child.MustHash()
	root := tr.MustHash()
	vrt.Assert("store_ok", s.StoreTrie(storage.NewTrieState(tr), nil) == nil)
	s.tries.delete(root)
	lt, err := s.LoadFromDB(root)
	vrt.Observe("reload", err != nil)
	vrt.Assert("reload_ok", err == nil && lt != nil)
	if lt == nil {
		return
	}
	vrt.Assert("reload_root", lt.MustHash() == root)
	for i, k := range keys {
		vrt.Assert("reload_value", zzSameValue04(lt.Get(k), vals[i]))
	}
	lc, err := lt.GetChild(keyToChild)
	vrt.Assert("child_ok", err == nil && lc != nil)
	if lc == nil {
		return
	}
	vrt.Assert("child_root", lc.MustHash() == croot)
	vrt.Assert("child_value", zzSameValue04(lc.Get(ck), cv))
	g, err := lt.GetFromChild(keyToChild, ck)
	vrt.Assert("child_value_via_parent", vrt.And(err == nil, zzSameValue04(g, cv)))
	vrt.Reach("end")
}

// ZZ_C04_direct_read_small: three keys of fixed lengths 0, 1 and 2 with one-byte values (small
// sub-tries are inlined into their parent's encoding), either version; every direct read of a
// symbolic key agrees with the in-memory trie.
func ZZ_C04_direct_read_small() {
	s, _ := zzNewStorage04()
	tr := inmemory_trie.NewEmptyTrie()
	if vrt.Bool("v1") {
		tr.SetVersion(trie.V1)
	}
	for i := 0; i < 3; i++ {
		sfx := string(rune('0' + i))
		k := zzKey04("k"+sfx, i, i)
		vrt.Assert("put_ok", tr.Put(k, vrt.Bytes("v"+sfx, 1)) == nil)
	}
	root := tr.MustHash()
	vrt.Assert("store_ok", s.StoreTrie(storage.NewTrieState(tr), nil) == nil)
	s.tries.delete(root)
	q := zzKey04("q", 0, 2)
	want := tr.Get(q)
	got, err := s.GetStorage(&root, q)
	vrt.Observe("direct", err != nil, got == nil, want == nil)
	vrt.Assert("direct_read_ok", err == nil)
	vrt.Assert("direct_read_value", zzSameValue04(got, want))
	vrt.Reach("end")
}
