package keystore

import (
	"bytes"

	vrt "github.com/ChainSafe/gossamer/internal/zzverif/vrt"
	"github.com/ChainSafe/gossamer/lib/crypto"
	"github.com/ChainSafe/gossamer/lib/crypto/ed25519"
)

func zzPw(name string) []byte {
	b := vrt.Bytes(name, vrt.Range(name+"_len", 0, vrt.Param("maxpw", 2)))
	if vrt.Param("ascii", 0) == 1 {
		for _, x := range b {
			vrt.Assume(x < 0x80)
		}
	}
	return b
}

// ZZ_C37_ascii_passwords: the round-trip / wrong-password property again with passwords over
// 7-bit ASCII (including every ASCII white-space and control character).
func ZZ_C37_ascii_passwords() {
	ZZ_C37_roundtrip_and_wrong_password()
}

// ZZ_C37_roundtrip_and_wrong_password: decrypting with the same password gives the message
// back; a different password gives an error, never another message.
func ZZ_C37_roundtrip_and_wrong_password() {
	msg := vrt.Bytes("msg", vrt.Range("msg_len", 0, 3))
	pw := zzPw("pw")
	ct, err := Encrypt(msg, pw)
	vrt.Assert("encrypt_ok", err == nil)
	vrt.Assert("ciphertext_length", len(ct) == 12+len(msg)+16)
	back, err := Decrypt(ct, pw)
	vrt.Assert("roundtrip", vrt.And(err == nil, vrt.BytesEq(back, msg)))
	pw2 := zzPw("pw2")
	same := vrt.BytesEq(pw, pw2)
	back2, err2 := Decrypt(ct, pw2)
	if err2 == nil {
		vrt.Assert("other_password_must_fail", same)
		vrt.Assert("no_different_message", vrt.BytesEq(back2, msg))
	} else {
		vrt.Assert("same_password_must_succeed", vrt.Not(same))
	}
	vrt.Reach("end")
}

// ZZ_C37_tamper: any truncation and any single-byte modification of a ciphertext is rejected
// with an error; no input makes Decrypt panic.
func ZZ_C37_tamper() {
	msg := vrt.Bytes("msg", 2)
	pw := zzPw("pw")
	ct, err := Encrypt(msg, pw)
	vrt.Assert("encrypt_ok", err == nil)
	switch vrt.Choice("mode", 2) {
	case 0: // truncate to any shorter length
		n := vrt.Range("keep", 0, len(ct)-1)
		_, err := Decrypt(ct[:n], pw)
		vrt.Assert("truncated_rejected", err != nil)
	case 1: // modify one byte
		pos := vrt.Range("pos", 0, len(ct)-1)
		delta := vrt.U8("delta")
		vrt.Assume(delta != 0)
		mod := append([]byte{}, ct...)
		mod[pos] ^= delta
		_, err := Decrypt(mod, pw)
		vrt.Assert("modified_rejected", err != nil)
	}
	vrt.Reach("end")
}

// ZZ_C37_garbage: data that never came out of Encrypt (every byte string of 0..N bytes) is
// rejected with an error and never makes Decrypt panic.
func ZZ_C37_garbage() {
	pw := zzPw("pw")
	n := vrt.Range("rawlen", 0, vrt.Param("maxraw", 30))
	raw := vrt.Bytes("raw", n)
	_, err := Decrypt(raw, pw)
	vrt.Assert("garbage_rejected", err != nil)
	vrt.Reach("end")
}

// ZZ_C37_private_key: an ed25519 private key survives EncryptPrivateKey/DecryptPrivateKey with
// the same password; a different password yields an error and a nil key.
func ZZ_C37_private_key() {
	kp, err := ed25519.NewKeypairFromSeed(vrt.Ed25519Seed(1))
	vrt.Assert("keypair_ok", err == nil)
	priv := kp.Private().(*ed25519.PrivateKey)
	pw := zzPw("pw")
	data, err := EncryptPrivateKey(priv, pw)
	vrt.Assert("encrypt_ok", err == nil)
	back, err := DecryptPrivateKey(data, pw, crypto.Ed25519Type)
	vrt.Assert("decrypt_ok", err == nil && back != nil)
	if back != nil {
		vrt.Assert("same_key", bytes.Equal(back.Encode(), priv.Encode()))
	}
	pw2 := zzPw("pw2")
	vrt.Assume(vrt.Not(vrt.BytesEq(pw, pw2)))
	other, err := DecryptPrivateKey(data, pw2, crypto.Ed25519Type)
	vrt.Assert("wrong_password_error_and_nil_key", err != nil && other == nil)
	vrt.Reach("end")
}
