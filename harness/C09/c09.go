package wazero_runtime

import (
	vrt "github.com/ChainSafe/gossamer/internal/zzverif/vrt"
	"github.com/ChainSafe/gossamer/lib/runtime"
)

type zzStore struct {
	runtime.Storage // only Get and Put are used by storageAppend
	val             []byte
	puts            int
}

func (s *zzStore) Get(key []byte) []byte { return s.val }
func (s *zzStore) Put(key, value []byte) error {
	s.val = append([]byte{}, value...)
	s.puts++
	return nil
}

// zzCompactU32 decodes a canonical SCALE Compact<u32> prefix as Substrate does; ok=false for a
// truncated, non-canonical or too large length.
func zzCompactU32(b []byte) (n uint32, used int, ok bool) {
	if len(b) == 0 {
		return 0, 0, false
	}
	switch b[0] & 3 {
	case 0:
		return uint32(b[0] >> 2), 1, true
	case 1:
		if len(b) < 2 {
			return 0, 0, false
		}
		v := (uint32(b[0]) | uint32(b[1])<<8) >> 2
		return v, 2, v > 0x3f
	case 2:
		if len(b) < 4 {
			return 0, 0, false
		}
		v := (uint32(b[0]) | uint32(b[1])<<8 | uint32(b[2])<<16 | uint32(b[3])<<24) >> 2
		return v, 4, v > 0x3fff
	default:
		if b[0]>>2 != 0 || len(b) < 5 { // only four following bytes fit a u32
			return 0, 0, false
		}
		v := uint32(b[1]) | uint32(b[2])<<8 | uint32(b[3])<<16 | uint32(b[4])<<24
		return v, 5, v > 0x3fffffff
	}
}

func zzEncCompactU32(x uint32) []byte {
	switch {
	case x < 1<<6:
		return []byte{byte(x) << 2}
	case x < 1<<14:
		v := x<<2 | 1
		return []byte{byte(v), byte(v >> 8)}
	case x < 1<<30:
		v := x<<2 | 2
		return []byte{byte(v), byte(v >> 8), byte(v >> 16), byte(v >> 24)}
	}
	return []byte{3, byte(x), byte(x >> 8), byte(x >> 16), byte(x >> 24)}
}

// ZZ_C09_append: storage append on an arbitrary stored value equals Substrate's append_or_new.
func ZZ_C09_append() {
	n := vrt.Range("curlen", 0, vrt.Param("maxcur", 6))
	cur := vrt.Bytes("cur", n)
	item := vrt.Bytes("item", vrt.Range("itemlen", 0, 2))
	st := &zzStore{val: append([]byte{}, cur...)}
	stored := st.val // the slice the storage hands out (shared with snapshots / transaction layers)
	err := storageAppend(st, []byte{0x01}, item)
	vrt.Assert("no_error", err == nil)
	vrt.Assert("one_put", st.puts == 1)
	cnt, used, ok := zzCompactU32(cur)
	var want []byte
	if ok && cnt != 0xffffffff { // forks
		want = append(want, zzEncCompactU32(cnt+1)...)
		want = append(want, cur[used:]...)
		want = append(want, item...)
	} else {
		want = append([]byte{4}, item...)
	}
	vrt.Assert("append_matches_substrate", vrt.BytesEq(st.val, want))
	// the value obtained from storage must not be modified in place: it may be shared with
	// other snapshots or an enclosing transaction
	vrt.Assert("stored_slice_not_mutated", vrt.BytesEq(stored, cur))
	vrt.Reach("end")
}
