package babe

import (
	vrt "github.com/ChainSafe/gossamer/internal/zzverif/vrt"
	"github.com/ChainSafe/gossamer/lib/common"
)

// ZZ_C25_secondary_author: for symbolic randomness and slot and a small authority count n, the
// secondary slot author is the big-endian BLAKE2b-256 of (randomness || slot as u64 LE) modulo n.
// The reference reduces the digest byte by byte with 64-bit arithmetic.
func ZZ_C25_secondary_author() {
	var r Randomness
	copy(r[:], vrt.Bytes("rand", 32))
	slot := vrt.U64("slot")
	n := vrt.Range("n", 1, vrt.Param("maxauths", 5))
	got, err := getSecondarySlotAuthor(slot, n, r)
	vrt.Assert("author_ok", err == nil)
	in := append(append([]byte{}, r[:]...), byte(slot), byte(slot>>8), byte(slot>>16), byte(slot>>24),
		byte(slot>>32), byte(slot>>40), byte(slot>>48), byte(slot>>56))
	h := common.MustBlake2bHash(in)
	rem := uint64(0)
	for _, b := range h {
		rem = (rem*256 + uint64(b)) % uint64(n)
	}
	vrt.Assert("secondary_author_is_digest_mod_n", uint64(got) == rem)
	vrt.Reach("end")
}
