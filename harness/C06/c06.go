package triedb

import (
	"github.com/ChainSafe/gossamer/internal/database"
	"github.com/ChainSafe/gossamer/internal/primitives/core/hash"
	"github.com/ChainSafe/gossamer/internal/primitives/runtime"
	"github.com/ChainSafe/gossamer/internal/zzverif/kv"
	vrt "github.com/ChainSafe/gossamer/internal/zzverif/vrt"
	"github.com/ChainSafe/gossamer/pkg/trie"
	inmemory_trie "github.com/ChainSafe/gossamer/pkg/trie/inmemory"
)

func zzKey06(name string, minLen, maxLen int) []byte {
	n := vrt.Range(name+"_len", minLen, maxLen)
	b := vrt.Bytes(name, n)
	a := byte(vrt.Param("alpha", 2))
	for _, x := range b {
		vrt.Assume(vrt.And(x&0x0f < a, x>>4 < a))
	}
	return b
}

func zzSame06(got, want []byte) bool {
	if want == nil {
		return got == nil
	}
	return vrt.And(got != nil, vrt.BytesEq(got, want))
}

// ZZ_C06_triedb: the database-backed trie engine and the in-memory trie (whose root is checked
// against the specification by C01) receive the same symbolic sequence of inserts and deletes;
// the roots agree, and a fresh TrieDB opened at the committed root returns the same value for
// every queried key.
func ZZ_C06_triedb() {
	db := database.NewTable(kv.New(), "trie")
	// the database holds the empty node under the empty root (what the engine's own MemoryDB
	// test double special-cases), so that an empty trie can be opened
	emptyRoot := (*new(runtime.BlakeTwo256)).Hash([]byte{0})
	vrt.Assert("seed_ok", db.Put(emptyRoot.Bytes(), []byte{0}) == nil)
	t := NewEmptyTrieDB[hash.H256, runtime.BlakeTwo256](db)
	v1 := vrt.Bool("v1")
	if v1 {
		t.SetVersion(trie.V1)
	}
	var refKeys, refVals [][]byte // reference contents: association list
	refFind := func(k []byte) int {
		for i := range refKeys {
			if len(refKeys[i]) == len(k) && vrt.BytesEq(refKeys[i], k) { // forks
				return i
			}
		}
		return -1
	}
	ml := vrt.Param("maxlen", 2)
	lens := []int{1, 33}
	nops := vrt.Param("ops", 3)
	if zzSmallValues06 {
		lens = []int{1}
		nops = 3
	}
	var keys [][]byte
	for s := 0; s < nops; s++ {
		sfx := string(rune('0' + s))
		k := zzKey06("k"+sfx, 0, ml)
		keys = append(keys, k)
		if s > 0 && vrt.Bool("delete"+sfx) {
			vrt.Assert("delete_ok", t.Delete(k) == nil)
			if i := refFind(k); i >= 0 {
				refKeys = append(refKeys[:i:i], refKeys[i+1:]...)
				refVals = append(refVals[:i:i], refVals[i+1:]...)
			}
			continue
		}
		v := vrt.Bytes("v"+sfx, lens[vrt.Choice("vlen"+sfx, len(lens))])
		vrt.Assert("put_ok", t.Put(k, v) == nil)
		if i := refFind(k); i >= 0 {
			refVals[i] = v
		} else {
			refKeys = append(refKeys, k)
			refVals = append(refVals, v)
		}
	}
	root, err := t.Hash()
	vrt.Assert("hash_ok", err == nil)
	// the reference root: the in-memory trie built from the final contents by insertions only
	ref := inmemory_trie.NewEmptyTrie()
	if v1 {
		ref.SetVersion(trie.V1)
	}
	for i := range refKeys {
		vrt.Assert("ref_put_ok", ref.Put(refKeys[i], refVals[i]) == nil)
	}
	refGet := func(k []byte) []byte {
		if i := refFind(k); i >= 0 {
			return refVals[i]
		}
		return nil
	}
	want := ref.MustHash()
	vrt.Assert("root_equals_in_memory_root", vrt.BytesEq(root.Bytes(), want[:]))
	fresh := NewTrieDB[hash.H256, runtime.BlakeTwo256](root, db)
	if v1 {
		fresh.SetVersion(trie.V1)
	}
	q := zzKey06("q", 0, ml)
	gq, wq := fresh.Get(q), refGet(q)
	vrt.Observe("fresh_q", gq == nil, len(gq), wq == nil, len(wq))
	vrt.Assert("fresh_instance_reads_query", zzSame06(gq, wq))
	for _, k := range keys {
		vrt.Assert("fresh_instance_reads_keys", zzSame06(fresh.Get(k), refGet(k)))
	}
	vrt.Reach("end")
}


var zzSmallValues06 bool

// ZZ_C06_triedb_three_ops: the same harness with three operations and one-byte values only
// (deletes that collapse a branch need two inserts first).
func ZZ_C06_triedb_three_ops() {
	zzSmallValues06 = true
	ZZ_C06_triedb()
}
