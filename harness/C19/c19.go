package grandpa

import (
	primitives "github.com/ChainSafe/gossamer/internal/primitives/consensus/grandpa"
	"github.com/ChainSafe/gossamer/internal/primitives/core/hash"
	"github.com/ChainSafe/gossamer/internal/primitives/runtime"
	"github.com/ChainSafe/gossamer/internal/primitives/runtime/generic"
	vrt "github.com/ChainSafe/gossamer/internal/zzverif/vrt"
	grandpa "github.com/ChainSafe/gossamer/pkg/finality-grandpa"
)

const (
	zzRound19 = uint64(5)
	zzSetID19 = uint64(2)
)

// zzTree19: fixed fork tree  G(0) - A1(1) - A2(2) - A3(3),  A1 - B2(2) - B3(3)
type zzTree19 struct {
	hdr    []runtime.Header[uint32, hash.H256]
	hash   []hash.H256
	parent []int
	number []uint32
}

func zzNewTree19() *zzTree19 {
	t := &zzTree19{}
	add := func(parent int, num uint32, tag byte) {
		var ph hash.H256
		if parent >= 0 {
			ph = t.hash[parent]
		} else {
			ph = hash.H256(string(make([]byte, 32)))
		}
		root := make([]byte, 32)
		root[0] = tag
		h := generic.NewHeader[uint32, hash.H256, runtime.BlakeTwo256](num, hash.H256(string(root)), hash.H256(string(root)), ph, runtime.Digest{})
		t.hdr = append(t.hdr, h)
		t.hash = append(t.hash, h.Hash())
		t.parent = append(t.parent, parent)
		t.number = append(t.number, num)
	}
	add(-1, 0, 0xf0) // 0 G
	add(0, 1, 0xa1)  // 1 A1
	add(1, 2, 0xa2)  // 2 A2
	add(2, 3, 0xa3)  // 3 A3
	add(1, 2, 0xb2)  // 4 B2
	add(4, 3, 0xb3)  // 5 B3
	return t
}

func (t *zzTree19) isAncestor(a, b int) bool { // a is an ancestor of b, or b itself
	for x := b; x >= 0; x = t.parent[x] {
		if x == a {
			return true
		}
	}
	return false
}

func zzPrecommit19(t *zzTree19, signer, blk int, valid bool) grandpa.SignedPrecommit[hash.H256, uint32, primitives.AuthoritySignature, primitives.AuthorityID] {
	pc := grandpa.Precommit[hash.H256, uint32]{TargetHash: t.hash[blk], TargetNumber: t.number[blk]}
	payload := primitives.NewLocalizedPayload(primitives.RoundNumber(zzRound19), primitives.SetID(zzSetID19), grandpa.NewMessage(pc))
	sig := vrt.Ed25519Sign(signer, payload, valid)
	return grandpa.SignedPrecommit[hash.H256, uint32, primitives.AuthoritySignature, primitives.AuthorityID]{
		Precommit: pc,
		Signature: primitives.AuthoritySignature(sig),
		ID:        primitives.AuthorityID(vrt.Ed25519Pub(signer)),
	}
}

// ZZ_C19_justification: a justification for a symbolic target with symbolic precommits (signer,
// block, signature validity) and a symbolic subset of ancestry headers, against 4 unit-weight
// authorities.
func ZZ_C19_justification() {
	t := zzNewTree19()
	n := vrt.Range("n_auth", vrt.Param("auths", 2), vrt.Param("maxauths", 3))
	var auths primitives.AuthorityList
	for i := 0; i < n; i++ {
		auths = append(auths, primitives.AuthorityIDWeight{AuthorityID: primitives.AuthorityID(vrt.Ed25519Pub(i)), AuthorityWeight: 1})
	}
	target := []int{1, 2, 4}[vrt.Choice("target", 3)]
	m := vrt.Range("n_pc", 1, vrt.Param("maxpc", 2))
	type entry struct {
		signer, block int
		valid         bool
	}
	var entries []entry
	j := &GrandpaJustification[hash.H256, uint32]{}
	j.Justification.Round = zzRound19
	j.Justification.Commit.TargetHash = t.hash[target]
	j.Justification.Commit.TargetNumber = t.number[target]
	for k := 0; k < m; k++ {
		sfx := string(rune('0' + k))
		// three classes of precommit block relative to the target: the target itself, its
		// descendant at height 3, the competing fork at height 2
		var blk int
		switch vrt.Choice("block"+sfx, 3) {
		case 0:
			blk = target
		case 1:
			blk = 3
			if target == 4 {
				blk = 5
			}
		case 2:
			blk = 4
			if target == 4 {
				blk = 2
			}
		}
		e := entry{signer: vrt.Choice("signer"+sfx, n+1), block: blk, valid: vrt.Bool("valid" + sfx)}
		entries = append(entries, e)
		j.Justification.Commit.Precommits = append(j.Justification.Commit.Precommits, zzPrecommit19(t, e.signer, e.block, e.valid))
	}
	// vote ancestries: the headers needed to connect every precommit to the lowest precommit
	// block, or that set minus its first element, or plus one header that is not needed
	base0 := -1
	for _, e := range entries {
		if base0 < 0 || t.number[e.block] <= t.number[base0] {
			base0 = e.block
		}
	}
	needed := make([]bool, 6)
	for _, e := range entries {
		if !t.isAncestor(base0, e.block) {
			continue
		}
		for x := e.block; x != base0; x = t.parent[x] {
			needed[x] = true
		}
	}
	included := make([]bool, 6)
	copy(included, needed)
	switch vrt.Choice("ancestries", 3) {
	case 1:
		for b := 2; b <= 5; b++ {
			if included[b] {
				included[b] = false
				break
			}
		}
	case 2:
		for b := 2; b <= 5; b++ {
			if !included[b] {
				included[b] = true
				break
			}
		}
	}
	for b := 2; b <= 5; b++ {
		if included[b] {
			j.Justification.VoteAncestries = append(j.Justification.VoteAncestries, t.hdr[b])
		}
	}
	err := j.Verify(zzSetID19, auths)
	vrt.Observe("verify", err != nil, target, m)
	// the verdict does not depend on the order of the precommits
	j2 := &GrandpaJustification[hash.H256, uint32]{}
	j2.Justification.Round = zzRound19
	j2.Justification.Commit.TargetHash = t.hash[target]
	j2.Justification.Commit.TargetNumber = t.number[target]
	for k := len(entries) - 1; k >= 0; k-- {
		j2.Justification.Commit.Precommits = append(j2.Justification.Commit.Precommits, j.Justification.Commit.Precommits[k])
	}
	j2.Justification.VoteAncestries = j.Justification.VoteAncestries
	err2 := j2.Verify(zzSetID19, auths)
	vrt.Assert("verdict_independent_of_precommit_order", (err == nil) == (err2 == nil))
	if err == nil {
		vrt.Reach("accepted")
		// soundness: everything an accepted justification must satisfy
		weight := 0
		counted := make([]bool, n)
		for _, e := range entries {
			vrt.Assert("accepted_precommits_are_signed_by_members", e.signer < n && e.valid)
			if e.signer < n && !counted[e.signer] && t.isAncestor(target, e.block) {
				counted[e.signer] = true
				weight++
			}
		}
		vrt.Assert("accepted_has_supermajority_on_target", 3*weight > 2*n)
		// every supplied header is on the route from some precommit to the lowest precommit block
		base := -1
		for _, e := range entries {
			if base < 0 || t.number[e.block] <= t.number[base] {
				base = e.block
			}
		}
		used := make([]bool, 6)
		for _, e := range entries {
			for x := e.block; x >= 0 && x != base; x = t.parent[x] {
				used[x] = true
				vrt.Assert("accepted_precommit_connected_by_supplied_headers", included[x])
			}
		}
		for b := 2; b <= 5; b++ {
			if included[b] {
				vrt.Assert("accepted_has_no_unused_header", used[b])
			}
		}
	}
	vrt.Reach("end")
}
