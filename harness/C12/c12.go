package scale

import (
	"bytes"
	"math/big"

	vrt "github.com/ChainSafe/gossamer/internal/zzverif/vrt"
)

// zzDecode runs the real decoder on data and returns how many bytes it consumed.
func zzDecode(data []byte, dst interface{}) (consumed int, err error) {
	buf := bytes.NewBuffer(data)
	err = NewDecoder(buf).Decode(dst)
	return len(data) - buf.Len(), err
}

func zzInput(maxLen int) []byte {
	n := vrt.Range("n", 0, maxLen)
	return vrt.Bytes("in", n)
}

// the property for one shape: decode fails, or the canonical encoding of the decoded
// value is exactly the consumed prefix of the input.
func zzCheck(label string, data []byte, consumed int, err error, val interface{}) {
	if err != nil {
		return
	}
	enc, merr := Marshal(val)
	vrt.Assert(label+"_reencode_ok", merr == nil)
	// regions of known findings S2a/S2c (lengths are concrete on a path)
	vrt.Ghost("kf_short_read", consumed == len(data)) // the decoder ran into the end of the input
	vrt.Ghost("kf_noncanonical", len(enc) < consumed)
	vrt.Assert(label+"_consumed_in_range", consumed <= len(data))
	if consumed <= len(data) {
		vrt.Assert(label+"_canonical_prefix", vrt.BytesEq(enc, data[:consumed]))
	}
}

// ZZ_C12_uint: compact uint from arbitrary bytes.
func ZZ_C12_uint() {
	vrt.AllocLimit(16 << 20)
	data := zzInput(vrt.Param("maxlen", 5))
	var v uint
	c, err := zzDecode(data, &v)
	zzCheck("uint", data, c, err, v)
	vrt.Reach("end")
}

// ZZ_C12_fixed: fixed-width integers and bool.
func ZZ_C12_fixed() {
	vrt.AllocLimit(16 << 20)
	data := zzInput(vrt.Param("maxlen", 5))
	switch vrt.Choice("shape", 4) {
	case 0:
		var v uint32
		c, err := zzDecode(data, &v)
		zzCheck("u32", data, c, err, v)
	case 1:
		var v uint16
		c, err := zzDecode(data, &v)
		zzCheck("u16", data, c, err, v)
	case 2:
		var v int64
		c, err := zzDecode(data, &v)
		zzCheck("i64", data, c, err, v)
	case 3:
		var v bool
		c, err := zzDecode(data, &v)
		zzCheck("bool", data, c, err, v)
	}
	vrt.Reach("end")
}

// ZZ_C12_bytes: byte strings (length prefix is attacker controlled: allocation must stay bounded).
func ZZ_C12_bytes() {
	vrt.AllocLimit(16 << 20)
	data := zzInput(vrt.Param("maxlen", 5))
	var v []byte
	c, err := zzDecode(data, &v)
	zzCheck("bytes", data, c, err, v)
	vrt.Reach("end")
}

// ZZ_C12_bigint: *big.Int.
func ZZ_C12_bigint() {
	vrt.AllocLimit(16 << 20)
	data := zzInput(vrt.Param("maxlen", 5))
	var v *big.Int
	c, err := zzDecode(data, &v)
	if err == nil {
		vrt.Assert("bigint_nonnil", v != nil)
	}
	zzCheck("bigint", data, c, err, v)
	vrt.Reach("end")
}

type zzS12 struct {
	A uint16
	O *uint8
	L []uint16
}

// ZZ_C12_struct: struct with option and slice.
func ZZ_C12_struct() {
	vrt.AllocLimit(16 << 20)
	data := zzInput(vrt.Param("maxlen", 5))
	var v zzS12
	c, err := zzDecode(data, &v)
	zzCheck("struct", data, c, err, v)
	vrt.Reach("end")
}
