package peerset

import (
	"time"

	vrt "github.com/ChainSafe/gossamer/internal/zzverif/vrt"
	"github.com/libp2p/go-libp2p/core/peer"
)

var zzPeers = []peer.ID{"peerA", "peerB", "peerC"}

// zzCheckInvariants asserts the slot/ban invariants of the statement on the current state.
func zzCheckInvariants(ps *PeerSet, when string) {
	st := ps.peerState
	info := st.sets[0]
	vrt.Assert("in_slots_within_max", info.numIn <= info.maxIn)
	vrt.Assert("out_slots_within_max", info.numOut <= info.maxOut)
	var in, out uint32
	for _, p := range zzPeers {
		n, ok := st.nodes[p]
		if !ok {
			continue
		}
		_, noSlot := info.noSlotNodes[p]
		_, reserved := ps.reservedNode[p]
		switch n.state[0] {
		case ingoing:
			if !noSlot {
				in++
			}
		case outgoing:
			if !noSlot {
				out++
			}
		}
		if isPeerConnected(n.state[0]) && !reserved {
			vrt.Assert("no_banned_peer_connected", n.reputation >= BannedThresholdValue)
		}
		vrt.Assert("noslot_iff_reserved", noSlot == reserved)
	}
	vrt.Assert("in_counter_matches_connected", info.numIn == in)
	vrt.Assert("out_counter_matches_connected", info.numOut == out)
}

// ZZ_C30_peerset_ops: sequences of peer-set operations with symbolic slot limits and symbolic
// reputation changes; invariants checked after every operation.
func ZZ_C30_peerset_ops() {
	zzC30Ops(vrt.Param("ops", 3), vrt.Param("peers", len(zzPeers)))
}

func zzC30Ops(nops, npeers int) {
	maxIn, maxOut := vrt.U32("max_in"), vrt.U32("max_out")
	vrt.Assume(vrt.And(maxIn <= 2, maxOut <= 2))
	reservedOnly := vrt.Bool("reserved_only")
	ps, err := newPeerSet(NewConfigSet(maxIn, maxOut, reservedOnly, time.Hour))
	vrt.Assert("new_ok", err == nil)
	ps.resultMsgCh = make(chan Message, 4096)
	unreservedConnected := false
	for i := 0; i < nops; i++ {
		sfx := string(rune('0' + i))
		p := zzPeers[vrt.Choice("peer"+sfx, npeers)]
		op := vrt.Choice("op"+sfx, 8)
		if op == 3 {
			// region of known finding R1: un-reserving a peer that is connected
			if _, res := ps.reservedNode[p]; res {
				if n, ok := ps.peerState.nodes[p]; ok && isPeerConnected(n.state[0]) {
					unreservedConnected = true
				}
			}
		}
		vrt.Ghost("kf_unreserved_connected", unreservedConnected)
		switch op {
		case 0:
			err = ps.addPeer(0, peer.IDSlice{p})
		case 1:
			err = ps.removePeer(0, p)
		case 2:
			err = ps.addReservedPeers(0, p)
		case 3:
			err = ps.removeReservedPeers(0, p)
		case 4:
			err = ps.incoming(0, p)
		case 5:
			err = ps.disconnect(0, UnknownDrop, p)
			if err == ErrDisconnectReceivedForNonConnectedPeer {
				err = nil
			}
		case 6: // report a known peer (reporting an unknown peer self-deadlocks natively: excluded)
			if _, ok := ps.peerState.nodes[p]; !ok {
				vrt.Assume(false)
			}
			before := ps.peerState.nodes[p].reputation
			delta := Reputation(vrt.I32("delta" + sfx))
			err = ps.reportPeer(ReputationChange{Value: delta, Reason: "zz"}, p)
			if n, ok := ps.peerState.nodes[p]; ok {
				vrt.Assert("report_applied", n.reputation == zzSat64(int64(before)+int64(delta)))
			}
		case 7: // one second passes, then slots are (re)allocated
			ps.created = ps.created.Add(-time.Second)
			ps.latestTimeUpdate = ps.latestTimeUpdate.Add(-time.Second)
			err = ps.allocSlots(0)
		}
		vrt.Assert("op_no_error", err == nil)
		zzCheckInvariants(ps, sfx)
	}
	vrt.Reach("end")
}

// ZZ_C30_report_many: a reputation change reported for several peers applies to each of them.
func ZZ_C30_report_many() {
	ps, err := newPeerSet(NewConfigSet(2, 2, false, time.Hour))
	vrt.Assert("new_ok", err == nil)
	ps.resultMsgCh = make(chan Message, 4096)
	err = ps.addPeer(0, peer.IDSlice{zzPeers[0], zzPeers[1], zzPeers[2]})
	vrt.Assert("add_ok", err == nil)
	var before [3]Reputation
	for i, p := range zzPeers {
		r := Reputation(vrt.I32("rep" + string(rune('0'+i))))
		ps.peerState.nodes[p].reputation = r
		before[i] = r
	}
	delta := Reputation(vrt.I32("delta"))
	err = ps.reportPeer(ReputationChange{Value: delta, Reason: "zz"}, zzPeers[0], zzPeers[1], zzPeers[2])
	vrt.Assert("report_ok", err == nil)
	for i, p := range zzPeers {
		if n, ok := ps.peerState.nodes[p]; ok {
			vrt.Assert("report_applies_to_each_peer", n.reputation == zzSat64(int64(before[i])+int64(delta)))
		}
	}
	vrt.Reach("end")
}

// ZZ_C30_single_peer_ops: longer histories (5 operations) concentrated on one peer, so that
// multi-step ban/forget/re-accept sequences are covered.
func ZZ_C30_single_peer_ops() {
	zzC30Ops(vrt.Param("ops1", 5), 1)
}
