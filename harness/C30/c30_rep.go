package peerset

import (
	"math"

	vrt "github.com/ChainSafe/gossamer/internal/zzverif/vrt"
)

func zzSat64(x int64) Reputation {
	if x > math.MaxInt32 {
		return math.MaxInt32
	}
	if x < math.MinInt32 {
		return math.MinInt32
	}
	return Reputation(x)
}

// ZZ_C30_reputation_arith: Reputation.add/sub saturate for ALL int32 pairs
// (reference: 64-bit arithmetic clamped to the int32 range), and the
// time-decay tick moves a reputation towards zero without crossing it.
func ZZ_C30_reputation_arith() {
	r := Reputation(vrt.I32("r"))
	n := Reputation(vrt.I32("n"))
	vrt.Observe("in", int32(r), int32(n))
	a := r.add(n)
	vrt.Assert("add_saturates", a == zzSat64(int64(r)+int64(n)))
	s := r.sub(n)
	vrt.Assert("sub_saturates", s == zzSat64(int64(r)-int64(n)))
	t := reputationTick(r)
	vrt.Observe("out", int32(a), int32(s), int32(t))
	// tick: |t| <= |r|, same sign or zero, strictly closer to zero unless already zero
	if r > 0 {
		vrt.Assert("tick_pos", vrt.And(t >= 0, t < r))
	} else if r < 0 {
		vrt.Assert("tick_neg", vrt.And(t <= 0, t > r))
	} else {
		vrt.Assert("tick_zero", t == 0)
	}
	vrt.Reach("end")
}
