package wazero_runtime

import (
	"context"

	vrt "github.com/ChainSafe/gossamer/internal/zzverif/vrt"
	"github.com/ChainSafe/gossamer/lib/runtime"
	"github.com/ChainSafe/gossamer/pkg/scale"
	"github.com/ChainSafe/gossamer/pkg/trie"
	inmemory_trie "github.com/ChainSafe/gossamer/pkg/trie/inmemory"
	"github.com/tetratelabs/wazero/api"
)

// zzMem10 / zzMod10: a linear memory and a module that only provides that memory (the host
// functions under test use nothing else of the module).
type zzMem10 struct {
	api.Memory
	buf []byte
}

func (m *zzMem10) Size() uint64 { return uint64(len(m.buf)) }
func (m *zzMem10) Read(offset uint32, count uint64) ([]byte, bool) {
	if uint64(offset)+count > uint64(len(m.buf)) {
		return nil, false
	}
	end := uint64(offset) + count
	return m.buf[offset:end:end], true
}
func (m *zzMem10) Write(offset uint32, v []byte) bool {
	if uint64(offset)+uint64(len(v)) > uint64(len(m.buf)) {
		return false
	}
	copy(m.buf[offset:], v)
	return true
}

type zzMod10 struct {
	api.Module
	mem *zzMem10
}

func (m *zzMod10) Memory() api.Memory { return m.mem }

// zzAlloc10: bump allocator stand-in (the real allocator is the subject of C28).
type zzAlloc10 struct{ next uint32 }

func (a *zzAlloc10) Allocate(_ runtime.Memory, size uint32) (uint32, error) {
	p := a.next
	a.next += size
	return p, nil
}
func (a *zzAlloc10) Deallocate(runtime.Memory, uint32) error { return nil }

// zzCtx10 carries the runtime context under the package's context key (context.WithValue itself
// inspects the key type through internal/reflectlite, which the engine does not model).
type zzCtx10 struct {
	context.Context
	rt *runtime.Context
}

func (c zzCtx10) Value(key any) any {
	if key == runtimeContextKey {
		return c.rt
	}
	return nil
}

func zzSetup10(data []byte) (context.Context, *zzMod10, uint64) {
	mem := &zzMem10{buf: make([]byte, 512)}
	const at = 64
	copy(mem.buf[at:], data)
	ctx := zzCtx10{Context: context.Background(), rt: &runtime.Context{Allocator: &zzAlloc10{next: 256}}}
	return ctx, &zzMod10{mem: mem}, uint64(len(data))<<32 | at
}

func zzKey10(name string, maxLen int) []byte {
	n := vrt.Range(name+"_len", 0, maxLen)
	b := vrt.Bytes(name, n)
	for _, x := range b {
		vrt.Assume(vrt.And(x&0x0f < 2, x>>4 < 2))
	}
	return b
}

func zzVal10(name string) []byte {
	lens := []int{1, 33}
	return vrt.Bytes(name, lens[vrt.Choice(name+"_len", len(lens))])
}

// ZZ_C10_root: the trie-root host function over a SCALE-encoded list of symbolic key/value
// pairs returns a pointer to the root of the trie holding those pairs for versions 0 and 1, and
// 0 for every other version.
func ZZ_C10_root() {
	var entries trie.Entries
	for i := 0; i < vrt.Param("pairs", 2); i++ {
		sfx := string(rune('0' + i))
		entries = append(entries, trie.Entry{Key: zzKey10("k"+sfx, 1), Value: zzVal10("v" + sfx)})
	}
	data := scale.MustMarshal(entries)
	ctx, mod, span := zzSetup10(data)
	version := zzVersion10()
	ptr := ext_trie_blake2_256_root_version_2(ctx, mod, span, version)
	vrt.Observe("root", ptr != 0)
	if version == 0 || version == 1 {
		vrt.Assert("known_version_returns_root", ptr != 0)
		ref := inmemory_trie.NewEmptyTrie()
		if version == 1 {
			ref.SetVersion(trie.V1)
		}
		for _, e := range entries {
			vrt.Assert("ref_put_ok", ref.Put(e.Key, e.Value) == nil)
		}
		want := ref.MustHash()
		got, ok := mod.mem.Read(ptr, 32)
		vrt.Assert("root_readable", ok)
		vrt.Assert("host_root_equals_trie_root", ok && vrt.BytesEq(got, want[:]))
	} else {
		vrt.Assert("unknown_version_fails", ptr == 0)
	}
	vrt.Reach("end")
}

// ZZ_C10_ordered_root: the ordered-root host function over a list of symbolic values returns
// the root of the trie keyed by the compact-encoded indices.
func ZZ_C10_ordered_root() {
	var values [][]byte
	n := vrt.Range("n", 0, vrt.Param("maxvalues", 2))
	for i := 0; i < n; i++ {
		values = append(values, zzVal10("v"+string(rune('0'+i))))
	}
	data := scale.MustMarshal(values)
	ctx, mod, span := zzSetup10(data)
	version := zzVersion10()
	ptr := ext_trie_blake2_256_ordered_root_version_2(ctx, mod, span, version)
	if version == 0 || version == 1 {
		vrt.Assert("known_version_returns_root", ptr != 0)
		ref := inmemory_trie.NewEmptyTrie()
		if version == 1 {
			ref.SetVersion(trie.V1)
		}
		for i, v := range values {
			vrt.Assert("ref_put_ok", ref.Put([]byte{byte(i << 2)}, v) == nil)
		}
		want := ref.MustHash()
		got, ok := mod.mem.Read(ptr, 32)
		vrt.Assert("ordered_root_equals_trie_root", ok && vrt.BytesEq(got, want[:]))
	} else {
		vrt.Assert("unknown_version_fails", ptr == 0)
	}
	vrt.Reach("end")
}

// ZZ_C10_undecodable: arbitrary bytes as input: the functions return (0 or a root pointer)
// without panicking.
func ZZ_C10_undecodable() {
	vrt.AllocLimit(1 << 20)
	data := vrt.Bytes("in", vrt.Range("n", 0, vrt.Param("maxlen", 4)))
	ctx, mod, span := zzSetup10(data)
	if vrt.Bool("ordered") {
		_ = ext_trie_blake2_256_ordered_root_version_2(ctx, mod, span, 0)
	} else {
		_ = ext_trie_blake2_256_root_version_2(ctx, mod, span, 0)
	}
	vrt.Reach("end")
}

// zzVersion10: the requested state version: the two known ones, small unknown ones, and values
// that only differ from a known version above the low byte (the version is rendered as text by
// the code under test, so it is concrete on every path).
func zzVersion10() uint32 {
	return []uint32{0, 1, 2, 255, 256, 257, 0x10000, 0xffffffff}[vrt.Choice("version", 8)]
}

// ZZ_C10_ordered_root_long: lists long enough for the index key to leave the one-byte compact
// mode (64 values and more), one symbolic byte per value.
func ZZ_C10_ordered_root_long() {
	n := 63 + vrt.Choice("n_minus_63", 4)
	var values [][]byte
	for i := 0; i < n; i++ {
		values = append(values, vrt.Bytes("v"+string(rune('0'+i/10))+string(rune('0'+i%10)), 1))
	}
	data := scale.MustMarshal(values)
	mem := &zzMem10{buf: make([]byte, 1024)}
	copy(mem.buf[64:], data)
	ctx := zzCtx10{Context: context.Background(), rt: &runtime.Context{Allocator: &zzAlloc10{next: 900}}}
	mod := &zzMod10{mem: mem}
	ptr := ext_trie_blake2_256_ordered_root_version_2(ctx, mod, uint64(len(data))<<32|64, 0)
	vrt.Assert("known_version_returns_root", ptr != 0)
	ref := inmemory_trie.NewEmptyTrie()
	for i, v := range values {
		key := []byte{byte(i << 2)}
		if i >= 64 {
			x := uint16(i)<<2 | 1
			key = []byte{byte(x), byte(x >> 8)}
		}
		vrt.Assert("ref_put_ok", ref.Put(key, v) == nil)
	}
	want := ref.MustHash()
	got, ok := mod.mem.Read(ptr, 32)
	vrt.Assert("ordered_root_equals_trie_root", ok && vrt.BytesEq(got, want[:]))
	vrt.Reach("end")
}
