package grandpa

import (
	"errors"

	"github.com/ChainSafe/gossamer/dot/types"
	"github.com/ChainSafe/gossamer/internal/database"
	vrt "github.com/ChainSafe/gossamer/internal/zzverif/vrt"
	"github.com/ChainSafe/gossamer/lib/common"
	"github.com/ChainSafe/gossamer/lib/crypto/ed25519"
	"github.com/ChainSafe/gossamer/lib/runtime"
	"github.com/ChainSafe/gossamer/pkg/scale"
)

// zzChain: fixed fork tree  G(0) - A1(1) - A2(2) - A3(3)   and  A1 - B2(2)
type zzChain struct {
	hdr       []*types.Header
	hash      []common.Hash
	parent    []int
	finalised []common.Hash
}

func zzNewChain() *zzChain {
	c := &zzChain{}
	add := func(parent int, num uint, tag byte) {
		ph := common.Hash{}
		if parent >= 0 {
			ph = c.hash[parent]
		}
		h := types.NewHeader(ph, common.Hash{}, common.Hash{tag}, num, types.NewDigest())
		c.hdr = append(c.hdr, h)
		c.hash = append(c.hash, h.Hash())
		c.parent = append(c.parent, parent)
	}
	add(-1, 0, 0xf0) // 0 G
	add(0, 1, 0xa1)  // 1 A1
	add(1, 2, 0xa2)  // 2 A2
	add(2, 3, 0xa3)  // 3 A3
	add(1, 2, 0xb2)  // 4 B2
	return c
}

func (c *zzChain) idx(h common.Hash) int {
	for i, x := range c.hash {
		if x == h {
			return i
		}
	}
	return -1
}

func (c *zzChain) isAncestor(a, b int) bool {
	for x := b; x >= 0; x = c.parent[x] {
		if x == a {
			return true
		}
	}
	return false
}

// BlockState interface
func (c *zzChain) GenesisHash() common.Hash { return c.hash[0] }
func (c *zzChain) HasHeader(h common.Hash) (bool, error) { return c.idx(h) >= 0, nil }
func (c *zzChain) GetHeader(h common.Hash) (*types.Header, error) {
	if i := c.idx(h); i >= 0 {
		return c.hdr[i], nil
	}
	return nil, database.ErrNotFound
}
func (c *zzChain) GetHeaderByNumber(num uint) (*types.Header, error) { return nil, database.ErrNotFound }
func (c *zzChain) IsDescendantOf(parent, child common.Hash) (bool, error) {
	p, ch := c.idx(parent), c.idx(child)
	if p < 0 || ch < 0 {
		return false, errors.New("zz: node not found")
	}
	return c.isAncestor(p, ch), nil
}
func (c *zzChain) LowestCommonAncestor(a, b common.Hash) (common.Hash, error) { return c.hash[0], nil }
func (c *zzChain) HasFinalisedBlock(round, setID uint64) (bool, error)        { return false, nil }
func (c *zzChain) GetFinalisedHeader(round, setID uint64) (*types.Header, error) {
	return c.hdr[0], nil
}
func (c *zzChain) GetRoundAndSetID() (uint64, uint64)                          { return 0, 0 }
func (c *zzChain) GetFinalisedHash(round, setID uint64) (common.Hash, error)   { return c.hash[0], nil }
func (c *zzChain) SetFinalisedHash(h common.Hash, round, setID uint64) error {
	c.finalised = append(c.finalised, h)
	return nil
}
func (c *zzChain) BestBlockHeader() (*types.Header, error)                     { return c.hdr[3], nil }
func (c *zzChain) GetHighestFinalisedHeader() (*types.Header, error)           { return c.hdr[0], nil }
func (c *zzChain) GetImportedBlockNotifierChannel() chan *types.Block          { return nil }
func (c *zzChain) FreeImportedBlockNotifierChannel(ch chan *types.Block)       {}
func (c *zzChain) GetFinalisedNotifierChannel() chan *types.FinalisationInfo   { return nil }
func (c *zzChain) FreeFinalisedNotifierChannel(ch chan *types.FinalisationInfo) {}
func (c *zzChain) SetJustification(hash common.Hash, data []byte) error        { return nil }
func (c *zzChain) BestBlockNumber() (uint, error)                              { return 3, nil }
func (c *zzChain) GetHighestRoundAndSetID() (uint64, uint64, error)            { return 0, 0, nil }
func (c *zzChain) BestBlockHash() common.Hash                                  { return c.hash[3] }
func (c *zzChain) GetRuntime(common.Hash) (runtime.Instance, error)            { return nil, errors.New("zz") }
func (c *zzChain) GetJustification(common.Hash) ([]byte, error)                { return nil, errors.New("zz") }

const (
	zzRound = uint64(7)
	zzSetID = uint64(3)
)

// zzSignPrecommit: signature by harness key k over the precommit payload the protocol defines.
func zzSignPrecommit(k int, v Vote, valid bool) [64]byte {
	msg, err := scale.Marshal(FullVote{Stage: precommit, Vote: v, Round: zzRound, SetID: zzSetID})
	if err != nil {
		panic(err)
	}
	return vrt.Ed25519Sign(k, msg, valid)
}

// ZZ_C18_commit: a commit with m symbolic precommit entries against n authorities.
func ZZ_C18_commit() {
	c := zzNewChain()
	n := vrt.Range("n_auth", 1, vrt.Param("maxauth", 4))
	m := vrt.Range("n_pc", 0, vrt.Param("maxpc", 4))
	voters := make([]Voter, n)
	for i := range voters {
		pk, err := ed25519.NewPublicKey(pubBytes(i))
		if err != nil {
			panic(err)
		}
		voters[i] = Voter{Key: *pk, ID: uint64(i)}
	}
	s := &Service{state: &State{voters: voters, setID: zzSetID, round: zzRound}, blockState: c}
	target := 1 + vrt.Choice("target", 2)*0 // commit target A1 or A2/B2 below
	switch vrt.Choice("target_kind", 3) {
	case 0:
		target = 1
	case 1:
		target = 2
	case 2:
		target = 4
	}
	cm := CommitMessage{Round: zzRound, SetID: zzSetID, Vote: Vote{Hash: c.hash[target], Number: uint32(c.hdr[target].Number)}}
	type entry struct {
		signer, block int
		valid         bool
	}
	var entries []entry
	for j := 0; j < m; j++ {
		sfx := string(rune('0' + j))
		signer := vrt.Choice("signer"+sfx, n+1) // index n = a key outside the authority set
		// three classes of precommit target relative to the commit target: the target's own
		// chain at or above it, the competing fork at the same height, an ancestor
		var blk int
		switch vrt.Choice("block"+sfx, 3) {
		case 0:
			blk = target
			if target == 1 || target == 2 {
				blk = 3 // A3 descends from A1 and A2
			}
		case 1:
			blk = 4 // B2
			if target == 4 {
				blk = 2 // A2 is the competing fork of B2
			}
		case 2:
			blk = 0
			if target != 1 {
				blk = 1 // A1: strict ancestor of A2/B2
			}
		}
		valid := vrt.Bool("valid" + sfx)
		v := Vote{Hash: c.hash[blk], Number: uint32(c.hdr[blk].Number)}
		sig := zzSignPrecommit(signer, v, valid)
		cm.Precommits = append(cm.Precommits, v)
		cm.AuthData = append(cm.AuthData, AuthData{Signature: sig, AuthorityID: vrt.Ed25519Pub(signer)})
		entries = append(entries, entry{signer, blk, valid})
	}
	err := verifyCommitMessageJustification(cm, zzSetID, s.state.threshold(), s.authorityKeySet(), c)
	// reference: distinct current authorities with a valid precommit for the target or a
	// descendant; an authority with two different valid precommits is an equivocator and counts.
	count := 0
	for a := 0; a < n; a++ {
		supports := false
		validVotes := 0
		first := -1
		equivocates := false
		for _, e := range entries {
			if e.signer != a || !e.valid { // forks on the symbolic validity flags
				continue
			}
			validVotes++
			if first < 0 {
				first = e.block
			} else if e.block != first {
				equivocates = true
			}
			if c.isAncestor(target, e.block) {
				supports = true
			}
		}
		if supports || equivocates {
			count++
		}
	}
	if err == nil {
		vrt.Assert("accepted_commit_has_supermajority", 3*count > 2*n)
	}
	vrt.Reach("end")
}

func pubBytes(i int) []byte {
	p := vrt.Ed25519Pub(i)
	return p[:]
}

// ZZ_C18_threshold_arith: the acceptance comparison of the real code (count >= threshold())
// against "more than two thirds" for every authority-set size below 2^16 and every count.
func ZZ_C18_threshold_arith() {
	n := int(vrt.U16("n"))
	cnt := uint64(vrt.U16("count"))
	vrt.Assume(vrt.And(n >= 1, cnt <= uint64(n)))
	st := &State{voters: make([]Voter, n)}
	accepted := !(cnt <= st.threshold()) // the comparison used by verifyCommitMessageJustification and attemptToFinalize
	vrt.Assert("threshold_is_more_than_two_thirds", accepted == (3*cnt > 2*uint64(n)))
	vrt.Reach("end")
}
