package transaction

import (
	"github.com/ChainSafe/gossamer/dot/types"
	vrt "github.com/ChainSafe/gossamer/internal/zzverif/vrt"
)

type zzQItem struct {
	ext   int
	prio  uint64
	order int
}

// ZZ_C34_sequential: every sequence of push/pop/peek/remove/exists over 4 distinct extrinsics
// with symbolic 64-bit priorities behaves like the reference (priority descending, then
// insertion order; at most once; duplicates refused).
func ZZ_C34_sequential() {
	exts := []types.Extrinsic{{0xe0}, {0xe1}, {0xe2}, {0xe3}}
	q := NewPriorityQueue()
	var ref []zzQItem // reference queue contents
	pushes := 0
	nops := vrt.Param("ops", 5)
	for i := 0; i < nops; i++ {
		sfx := string(rune('0' + i))
		switch vrt.Choice("op"+sfx, 5) {
		case 0: // push
			e := vrt.Choice("ext"+sfx, len(exts))
			prio := vrt.U64("prio" + sfx)
			_, err := q.Push(NewValidTransaction(exts[e], &Validity{Priority: prio}))
			dup := false
			for _, it := range ref {
				if it.ext == e {
					dup = true
				}
			}
			vrt.Assert("duplicate_refused", (err != nil) == dup)
			if !dup {
				ref = append(ref, zzQItem{e, prio, pushes})
				pushes++
			}
		case 1, 2: // pop / peek
			pop := true
			var got *ValidTransaction
			if vrt.Bool("peek" + sfx) {
				pop = false
				got = q.Peek()
			} else {
				got = q.Pop()
			}
			if len(ref) == 0 {
				vrt.Assert("empty_yields_nil", got == nil)
				continue
			}
			// reference best: highest priority, earliest insertion among equals
			best := 0
			for j := 1; j < len(ref); j++ {
				if ref[j].prio > ref[best].prio { // forks on symbolic priorities
					best = j
				}
			}
			ok := got != nil
			if ok {
				ok = len(got.Extrinsic) == 1 && got.Extrinsic[0] == exts[ref[best].ext][0]
			}
			vrt.Assert("highest_priority_then_fifo", ok)
			if pop {
				ref = append(ref[:best:best], ref[best+1:]...)
			}
		case 3: // remove
			e := vrt.Choice("ext"+sfx, len(exts))
			q.RemoveExtrinsic(exts[e])
			for j := range ref {
				if ref[j].ext == e {
					ref = append(ref[:j:j], ref[j+1:]...)
					break
				}
			}
		case 4: // membership
			e := vrt.Choice("ext"+sfx, len(exts))
			in := false
			for _, it := range ref {
				if it.ext == e {
					in = true
				}
			}
			vrt.Assert("exists_matches", q.Exists(exts[e].Hash()) == in)
		}
		vrt.Assert("length_matches", q.Len() == len(ref))
		vrt.Assert("pending_count", len(q.Pending()) == len(ref))
	}
	vrt.Reach("end")
}

// ZZ_C34_fifo_among_equals: longer interleavings of push/pop/remove with ONE shared symbolic
// priority: transactions of equal priority leave in insertion order however pushes, pops and
// removals interleave.
func ZZ_C34_fifo_among_equals() {
	q := NewPriorityQueue()
	prio := vrt.U64("prio")
	var ref []int // extrinsic ids in insertion order
	next := 0
	nops := vrt.Param("fifo_ops", 7)
	for i := 0; i < nops; i++ {
		sfx := string(rune('0' + i))
		switch vrt.Choice("op"+sfx, 3) {
		case 0:
			ext := types.Extrinsic{0xf0, byte(next)}
			_, err := q.Push(NewValidTransaction(ext, &Validity{Priority: prio}))
			vrt.Assert("push_ok", err == nil)
			ref = append(ref, next)
			next++
		case 1:
			got := q.Pop()
			if len(ref) == 0 {
				vrt.Assert("empty_yields_nil", got == nil)
				continue
			}
			vrt.Assert("fifo_among_equal_priorities", got != nil && len(got.Extrinsic) == 2 && int(got.Extrinsic[1]) == ref[0])
			ref = ref[1:]
		case 2: // remove the oldest queued transaction
			if len(ref) == 0 {
				continue
			}
			q.RemoveExtrinsic(types.Extrinsic{0xf0, byte(ref[0])})
			ref = ref[1:]
		}
		vrt.Assert("length_matches", q.Len() == len(ref))
	}
	vrt.Reach("end")
}
