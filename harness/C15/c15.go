package blocktree

import (
	"bytes"
	"time"

	"github.com/ChainSafe/gossamer/dot/types"
	vrt "github.com/ChainSafe/gossamer/internal/zzverif/vrt"
	"github.com/ChainSafe/gossamer/lib/common"
)

// zzTree is the reference: parent-pointer array over block indices (0 = root).
type zzTree struct {
	parent  []int
	number  []uint
	primary []bool
	hdr     []*types.Header
	hash    []common.Hash
	arrival []int64
}

func zzHeader(idx int, parent common.Hash, number uint, primary bool) *types.Header {
	d := types.NewDigest()
	var pd *types.PreRuntimeDigest
	var err error
	if primary {
		pd, err = types.NewBabePrimaryPreDigest(0, uint64(number), [32]byte{}, [64]byte{}).ToPreRuntimeDigest()
	} else {
		pd, err = types.NewBabeSecondaryPlainPreDigest(0, uint64(number)).ToPreRuntimeDigest()
	}
	if err != nil {
		panic(err)
	}
	if err := d.Add(*pd); err != nil {
		panic(err)
	}
	return types.NewHeader(parent, common.Hash{}, common.Hash{byte(idx)}, number, d)
}

// zzGenTree creates a symbolic-shape tree of n blocks below a root: each block's parent is any
// earlier block; primary flags and arrival times symbolic.
func zzGenTree(n int, withFlags bool) *zzTree {
	t := &zzTree{}
	root := types.NewHeader(common.Hash{}, common.Hash{}, common.Hash{0xff}, 0, types.NewDigest())
	t.parent, t.number, t.primary = []int{-1}, []uint{0}, []bool{false}
	t.hdr, t.hash, t.arrival = []*types.Header{root}, []common.Hash{root.Hash()}, []int64{0}
	for i := 1; i <= n; i++ {
		sfx := string(rune('0' + i))
		p := vrt.Choice("parent"+sfx, i)
		prim := false
		arr := int64(i)
		if withFlags {
			prim = vrt.Bool("primary" + sfx)
			arr = int64(vrt.U8("arrival" + sfx)) // small symbolic arrival instants: ties are likely
		}
		h := zzHeader(i, t.hash[p], t.number[p]+1, prim)
		t.parent = append(t.parent, p)
		t.number = append(t.number, t.number[p]+1)
		t.primary = append(t.primary, prim)
		t.hdr = append(t.hdr, h)
		t.hash = append(t.hash, h.Hash())
		t.arrival = append(t.arrival, arr)
	}
	return t
}

func (t *zzTree) isAncestor(a, b int) bool { // a is an ancestor of b or equal
	for x := b; x >= 0; x = t.parent[x] {
		if x == a {
			return true
		}
	}
	return false
}

func (t *zzTree) build(order []int) *BlockTree {
	bt := NewBlockTreeFromRoot(t.hdr[0])
	for _, i := range order {
		err := bt.AddBlock(t.hdr[i], time.Unix(t.arrival[i], 0))
		vrt.Assert("add_block_ok", err == nil)
	}
	return bt
}

func zzNatural(n int) []int {
	o := make([]int, n)
	for i := range o {
		o[i] = i + 1
	}
	return o
}

func zzHasHash(hs []common.Hash, h common.Hash) bool {
	for _, x := range hs {
		if x == h {
			return true
		}
	}
	return false
}

// zzCheckStructure compares the tree's queries with the parent links, for the blocks in `live`.
func zzCheckStructure(bt *BlockTree, t *zzTree, live []int) {
	all := bt.GetAllBlocks()
	vrt.Assert("all_blocks_count", len(all) == len(live))
	for _, i := range live {
		vrt.Assert("all_blocks_has", zzHasHash(all, t.hash[i]))
	}
	leaves := bt.Leaves()
	nleaves := 0
	for _, i := range live {
		hasChild := false
		for _, j := range live {
			if t.parent[j] == i {
				hasChild = true
			}
		}
		if !hasChild {
			nleaves++
			vrt.Assert("leaf_listed", zzHasHash(leaves, t.hash[i]))
		}
	}
	vrt.Assert("leaves_count", len(leaves) == nleaves)
	for _, a := range live {
		for _, b := range live {
			got, err := bt.IsDescendantOf(t.hash[a], t.hash[b])
			vrt.Assert("is_descendant_of", err == nil && got == t.isAncestor(a, b))
			lca, err := bt.LowestCommonAncestor(t.hash[a], t.hash[b])
			want := a
			for !t.isAncestor(want, b) {
				want = t.parent[want]
			}
			vrt.Assert("lowest_common_ancestor", err == nil && lca == t.hash[want])
			if t.isAncestor(a, b) {
				r, err := bt.RangeInMemory(t.hash[a], t.hash[b])
				ok := err == nil && len(r) == int(t.number[b]-t.number[a])+1
				if ok {
					x := b
					for k := len(r) - 1; k >= 0; k-- {
						ok = ok && r[k] == t.hash[x]
						x = t.parent[x]
					}
				}
				vrt.Assert("range_follows_parent_links", ok)
			}
		}
	}
	// by-number listing
	for num := uint(0); num <= uint(len(t.parent)); num++ {
		hs := bt.GetHashesAtNumber(num)
		for _, h := range hs {
			found := false
			for _, i := range live {
				if t.hash[i] == h && t.number[i] == num {
					found = true
				}
			}
			vrt.Assert("hashes_at_number_sound", found)
		}
	}
}

// ZZ_C15_structure: every tree shape of n blocks; queries agree with the parent links; after
// finalising any block, exactly the blocks that are neither its ancestors nor descendants are
// reported pruned and the tree holds exactly its descendants.
func ZZ_C15_structure() {
	n := vrt.Param("blocks", 4)
	t := zzGenTree(n, false)
	bt := t.build(zzNatural(n))
	live := append([]int{0}, zzNatural(n)...)
	zzCheckStructure(bt, t, live)
	f := vrt.Choice("finalise", n+1)
	pruned := bt.Prune(t.hash[f])
	var wantPruned, keep []int
	for _, i := range live {
		switch {
		case t.isAncestor(f, i):
			keep = append(keep, i)
		case !t.isAncestor(i, f):
			wantPruned = append(wantPruned, i)
		}
	}
	vrt.Assert("pruned_count", len(pruned) == len(wantPruned))
	for _, i := range wantPruned {
		vrt.Assert("pruned_has", zzHasHash(pruned, t.hash[i]))
	}
	zzCheckStructure(bt, t, keep)
	// blocks outside the tree (pruned forks, ancestors of the finalised block, never-added
	// hashes) are not descendants of anything in it
	outside := append([]int{}, wantPruned...)
	for _, i := range live {
		if i != f && t.isAncestor(i, f) {
			outside = append(outside, i)
		}
	}
	for _, x := range outside {
		for _, in := range keep {
			got, err := bt.IsDescendantOf(t.hash[in], t.hash[x])
			vrt.Assert("outside_block_not_descendant", !(err == nil && got))
			got, err = bt.IsDescendantOf(t.hash[x], t.hash[in])
			vrt.Assert("outside_block_not_ancestor", !(err == nil && got))
		}
	}
	unknown := common.Hash{0xaa, 0xbb}
	for _, in := range keep {
		got, err := bt.IsDescendantOf(t.hash[in], unknown)
		vrt.Assert("unknown_block_not_descendant", !(err == nil && got))
	}
	// a second finalisation on the pruned tree
	if len(keep) > 1 {
		g := keep[vrt.Choice("finalise2", len(keep))]
		pruned2 := bt.Prune(t.hash[g])
		var keep2 []int
		cnt := 0
		for _, i := range keep {
			if t.isAncestor(g, i) {
				keep2 = append(keep2, i)
			} else if !t.isAncestor(i, g) {
				cnt++
				vrt.Assert("pruned2_has", zzHasHash(pruned2, t.hash[i]))
			}
		}
		vrt.Assert("pruned2_count", len(pruned2) == cnt)
		zzCheckStructure(bt, t, keep2)
	}
	vrt.Reach("end")
}

var _ = bytes.Compare
