package allocator

import (
	"errors"

	vrt "github.com/ChainSafe/gossamer/internal/zzverif/vrt"
)

// zzMem is a word-addressed model of wasm linear memory: 8-byte little-endian words stored at
// the offsets they were written to. The allocator only issues 8-aligned word accesses; the
// fake asserts that no access partially overlaps a stored word (which would itself be a defect).
type zzMem struct {
	pages    uint64 // current size in pages
	maxPages uint64
	offs     []uint32
	vals     []uint64
}

func (m *zzMem) Size() uint64 { return m.pages * PageSize }

func (m *zzMem) Grow(delta uint32) (uint32, bool) {
	prev := m.pages
	if m.pages+uint64(delta) > m.maxPages {
		return 0, false
	}
	m.pages += uint64(delta)
	return uint32(prev), true
}

func (m *zzMem) find(off uint32) int {
	for i := range m.offs {
		if m.offs[i] == off { // forks when offsets are symbolic: aliasing is decided by the solver
			return i
		}
		d := off - m.offs[i]
		e := m.offs[i] - off
		vrt.Assert("mem_no_partial_overlap", vrt.And(vrt.Or(d >= 8, off < m.offs[i]), vrt.Or(e >= 8, m.offs[i] < off)))
	}
	return -1
}

func (m *zzMem) ReadUint64Le(off uint32) (uint64, bool) {
	if uint64(off)+8 > m.Size() {
		return 0, false
	}
	if i := m.find(off); i >= 0 {
		return m.vals[i], true
	}
	return 0, true
}

func (m *zzMem) WriteUint64Le(off uint32, v uint64) bool {
	if uint64(off)+8 > m.Size() {
		return false
	}
	if i := m.find(off); i >= 0 {
		m.vals[i] = v
		return true
	}
	m.offs = append(m.offs, off)
	m.vals = append(m.vals, v)
	return true
}

func (m *zzMem) ReadByte(uint32) (byte, bool)        { panic("unused") }
func (m *zzMem) Read(uint32, uint64) ([]byte, bool)  { panic("unused") }
func (m *zzMem) WriteByte(uint32, byte) bool         { panic("unused") }
func (m *zzMem) Write(uint32, []byte) bool           { panic("unused") }

type zzBlock struct {
	ptr    uint32
	size   uint32 // rounded-up block size (order size)
	canary uint64
	live   bool
}

func zzBlockSize(size uint32) uint32 {
	if size < 8 {
		return 8
	}
	s := uint32(8)
	for s < size {
		s <<= 1
	}
	return s
}

// zzReprSize restricts a symbolic request size to sizes whose order is one of the
// representative orders 0,1,2,21,22 (stated bound) or that is too large (> 32 MiB).
func zzReprSize(name string) uint32 {
	sz := vrt.U32(name)
	small := sz <= 32                                   // orders 0,1,2
	big := vrt.And(sz > 8<<20, sz <= MaxPossibleAllocations) // orders 21,22
	huge := sz > MaxPossibleAllocations
	vrt.Assume(vrt.Or(small, vrt.Or(big, huge)))
	return sz
}

// ZZ_C28_history: bounded histories of Allocate/Deallocate from the initial state.
func ZZ_C28_history() {
	vrt.StepLimit(20_000_000)
	heapBase := vrt.U32("heap_base")
	vrt.Assume(heapBase <= 0xffff_fff0)
	pages := uint64(vrt.U32("pages"))
	vrt.Assume(vrt.And(pages >= 1, pages <= MaxWasmPages))
	mem := &zzMem{pages: pages, maxPages: MaxWasmPages}
	vrt.Assume(uint64(heapBase) <= mem.Size())
	a := NewFreeingBumpHeapAllocator(heapBase)
	base := a.originalHeapBase
	var blocks []zzBlock
	poisoned := false
	nops := vrt.Param("ops", 3)
	for op := 0; op < nops; op++ {
		suffix := string(rune('0' + op))
		kind := vrt.Choice("op"+suffix, 3)
		switch kind {
		case 0: // allocate
			sz := zzReprSize("size" + suffix)
			ptr, err := a.Allocate(mem, sz)
			if poisoned {
				vrt.Assert("poisoned_stays_poisoned", errors.Is(err, ErrAllocatorPoisoned))
				continue
			}
			if sz > MaxPossibleAllocations {
				vrt.Assert("too_large_rejected", err != nil)
			}
			if err != nil {
				poisoned = true
				continue
			}
			bs := zzBlockSize(sz)
			vrt.Assert("aligned", ptr%8 == 0)
			vrt.Assert("above_heap_base", vrt.And(ptr >= base+8, ptr >= base))
			vrt.Assert("inside_memory", uint64(ptr)+uint64(bs) <= mem.Size())
			for _, b := range blocks {
				if b.live {
					lo1, hi1 := uint64(ptr)-8, uint64(ptr)+uint64(bs)
					lo2, hi2 := uint64(b.ptr)-8, uint64(b.ptr)+uint64(b.size)
					vrt.Assert("no_overlap", vrt.Or(hi1 <= lo2, hi2 <= lo1))
				}
			}
			can := vrt.U64("canary" + suffix)
			ok := mem.WriteUint64Le(ptr, can)
			vrt.Assert("canary_write", ok)
			blocks = append(blocks, zzBlock{ptr: ptr, size: bs, canary: can, live: true})
		case 1: // free a previously returned pointer (valid or double free)
			if len(blocks) == 0 {
				vrt.Assume(false)
			}
			bi := vrt.Choice("which"+suffix, len(blocks))
			err := a.Deallocate(mem, blocks[bi].ptr)
			if poisoned {
				vrt.Assert("poisoned_stays_poisoned", errors.Is(err, ErrAllocatorPoisoned))
				continue
			}
			// the pointer of a freed block may have been handed out again: freeing it then is a
			// valid free of the block that owns it now, not a double free
			owner := bi
			if !blocks[bi].live {
				for j := range blocks {
					if blocks[j].live && blocks[j].ptr == blocks[bi].ptr { // pointers are concrete or forked on
						owner = j
					}
				}
			}
			if blocks[owner].live {
				vrt.Assert("valid_free_ok", err == nil)
				blocks[owner].live = false
			} else {
				vrt.Assert("double_free_rejected", err != nil)
			}
			if err != nil {
				poisoned = true
			}
		case 2: // free an invalid pointer: below the header size, or in never-allocated space
			p := vrt.U32("bad" + suffix)
			below := p < 8
			unalloc := vrt.And(p%8 == 0, vrt.And(uint64(p) >= uint64(a.bumper)+8, p >= 8))
			vrt.Assume(vrt.Or(below, unalloc))
			err := a.Deallocate(mem, p)
			if poisoned {
				vrt.Assert("poisoned_stays_poisoned", errors.Is(err, ErrAllocatorPoisoned))
				continue
			}
			vrt.Assert("invalid_free_rejected", err != nil)
			poisoned = true
		}
		if !poisoned {
			vrt.Assert("poison_flag_clear", !a.poisoned)
		} else {
			vrt.Assert("poison_flag_set", a.poisoned)
		}
		vrt.Assert("memory_at_most_4GiB", mem.Size() <= 1<<32)
		for _, b := range blocks {
			if b.live {
				v, ok := mem.ReadUint64Le(b.ptr)
				vrt.Assert("live_data_intact", vrt.And(ok, v == b.canary))
			}
		}
	}
	vrt.Reach("end")
}

// ZZ_C28_order_arith: orderFromSize / nextPowerOf2GT8 for ALL 32-bit sizes: the block of the
// chosen order is the smallest power of two >= max(size,8), and sizes above 32 MiB are rejected.
func ZZ_C28_order_arith() {
	sz := vrt.U32("size")
	o, err := orderFromSize(sz)
	if sz > MaxPossibleAllocations {
		vrt.Assert("too_large_rejected", err != nil)
	} else {
		vrt.Assert("order_ok", err == nil)
		vrt.Assert("order_in_range", uint32(o) < NumOrders)
		bs := o.size()
		vrt.Assert("block_fits", vrt.And(bs >= sz, bs >= 8))
		vrt.Assert("block_minimal", vrt.Or(bs == 8, bs/2 < sz))
		vrt.Assert("block_power_of_two", bs&(bs-1) == 0)
	}
	vrt.Reach("end")
}
