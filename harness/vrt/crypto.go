package vrt

import (
	"crypto/ed25519"
	"crypto/sha512"
	"fmt"
)

// Ed25519Seed returns the deterministic 32-byte seed of harness key idx.
func Ed25519Seed(idx int) []byte {
	h := sha512.Sum512([]byte(fmt.Sprintf("zzverif-ed25519-key-%d", idx)))
	return h[:32]
}

// Ed25519Pub returns the public key of harness key idx.
func Ed25519Pub(idx int) [32]byte {
	var out [32]byte
	copy(out[:], ed25519.NewKeyFromSeed(Ed25519Seed(idx)).Public().(ed25519.PublicKey))
	return out
}

// Ed25519Sign signs msg with harness key idx. With valid=false it returns a signature over a
// different message (so it does not verify for msg). Under the engine a message with symbolic
// bytes gets a recorded dummy signature (closed-world verification).
func Ed25519Sign(idx int, msg []byte, valid bool) [64]byte {
	priv := ed25519.NewKeyFromSeed(Ed25519Seed(idx))
	m := msg
	if !valid {
		m = append(append([]byte{}, msg...), 0x5a)
	}
	var out [64]byte
	copy(out[:], ed25519.Sign(priv, m))
	return out
}
