// Package vrt is the harness runtime. It exists only in overlays (virtual
// directory /repo/internal/zzverif/vrt). Under the symbolic engine (gose)
// every function here is an intrinsic and these bodies are never executed;
// natively (replay / translation validation) the bodies read the values of
// the nondeterministic inputs from the JSON file named by $VRT_REPLAY.
package vrt

import (
	"encoding/json"
	"fmt"
	"math/big"
	"os"
	"runtime"
	"strings"
)

var (
	params  = map[string]int{}
	model   = map[string]*big.Int{}
	obsLog  []string
	Failed  []string
	Reached []string
)

// AssertFailure is the panic value used natively when an assertion fails.
type AssertFailure struct{ Label string }

// AssumeFailure is the panic value used natively when an assumption is false.
type AssumeFailure struct{}

// LoadModel (native only) installs the input values.
func LoadModel(path string) error {
	model = map[string]*big.Int{}
	obsLog = nil
	Failed = nil
	allocLimit = 0
	Reached = nil
	if path == "" {
		return nil
	}
	data, err := os.ReadFile(path)
	if err != nil {
		return err
	}
	var raw struct {
		Model  map[string]string `json:"model"`
		Params map[string]int    `json:"params"`
	}
	if err := json.Unmarshal(data, &raw); err != nil {
		return err
	}
	params = raw.Params
	for k, v := range raw.Model {
		b := new(big.Int)
		if strings.HasPrefix(v, "0x") {
			b.SetString(v[2:], 16)
		} else {
			b.SetString(v, 10)
		}
		model[k] = b
	}
	return nil
}

// ObsLog (native only) returns the observations made so far.
func ObsLog() []string { return obsLog }

func get(name string) uint64 {
	if v, ok := model[name]; ok {
		return v.Uint64()
	}
	return 0
}

func Bool(name string) bool  { return get(name) != 0 }
func U8(name string) uint8   { return uint8(get(name)) }
func U16(name string) uint16 { return uint16(get(name)) }
func U32(name string) uint32 { return uint32(get(name)) }
func U64(name string) uint64 { return get(name) }
func I8(name string) int8    { return int8(get(name)) }
func I16(name string) int16  { return int16(get(name)) }
func I32(name string) int32  { return int32(get(name)) }
func I64(name string) int64  { return int64(get(name)) }
func Int(name string) int    { return int(get(name)) }
func Uint(name string) uint  { return uint(get(name)) }

// Bytes returns n symbolic bytes named name_0 .. name_{n-1}.
func Bytes(name string, n int) []byte {
	b := make([]byte, n)
	for i := range b {
		b[i] = U8(fmt.Sprintf("%s_%d", name, i))
	}
	return b
}

// Range returns a value in [lo,hi]; under the engine every feasible value is explored.
func Range(name string, lo, hi int) int {
	v := int(int64(get(name)))
	if _, ok := model[name]; !ok {
		v = lo
	}
	if v < lo || v > hi {
		panic(AssumeFailure{})
	}
	return v
}

// Choice returns a value in [0,n).
func Choice(name string, n int) int { return Range(name, 0, n-1) }

// Concretize forces a symbolic int to a concrete value (forking over all feasible values).
func Concretize(v int) int { return v }

func Assume(cond bool) {
	if !cond {
		panic(AssumeFailure{})
	}
}

func Assert(label string, cond bool) {
	if !cond {
		Failed = append(Failed, label)
		panic(AssertFailure{label})
	}
}

func Reach(label string) { Reached = append(Reached, label) }

func And(a, b bool) bool     { return a && b }
func Or(a, b bool) bool      { return a || b }
func Not(a bool) bool        { return !a }
func Implies(a, b bool) bool { return !a || b }

// Ite selects without forking.
func IteU64(c bool, a, b uint64) uint64 {
	if c {
		return a
	}
	return b
}

// BytesEq compares without forking.
func BytesEq(a, b []byte) bool {
	if len(a) != len(b) {
		return false
	}
	for i := range a {
		if a[i] != b[i] {
			return false
		}
	}
	return true
}

// Observe logs values (ints, bools, strings, []byte only) for translation validation.
func Observe(label string, vals ...interface{}) {
	parts := make([]string, len(vals))
	for i, v := range vals {
		parts[i] = fmt.Sprintf("%v", v)
	}
	obsLog = append(obsLog, label+": "+strings.Join(parts, " "))
}

// Param returns a tier-dependent harness parameter (bounds) from the spec.
func Param(name string, def int) int {
	if v, ok := params[name]; ok {
		return v
	}
	return def
}

var (
	allocLimit    int
	allocBaseline uint64
)

// AllocLimit bounds what the code under test may allocate in one request, in elements.
// Natively the total bytes allocated after this call are compared with n (so n must
// leave room for the harness's own small allocations; use >= 1<<20).
func AllocLimit(n int) {
	var ms runtime.MemStats
	runtime.ReadMemStats(&ms)
	allocLimit, allocBaseline = n, ms.TotalAlloc
}

// AllocExceeded (native only) reports whether the harness allocated far more than its limit.
func AllocExceeded() bool {
	if allocLimit == 0 {
		return false
	}
	var ms runtime.MemStats
	runtime.ReadMemStats(&ms)
	return ms.TotalAlloc-allocBaseline > uint64(allocLimit)
}

func StepLimit(n int) {}

// Symbolic reports whether the harness runs under the symbolic engine.
func Symbolic() bool { return false }

// Ghost names a derived condition so that known-finding predicates
// (/verif/known_findings.json) can refer to it. No effect natively.
func Ghost(name string, cond bool) {}

// OpaqueBytes returns a zero-filled slice of n bytes. Under the engine n may be
// symbolic: the result then supports len() only.
func OpaqueBytes(n int) []byte { return make([]byte, n) }
