package grandpa

import (
	"errors"

	vrt "github.com/ChainSafe/gossamer/internal/zzverif/vrt"
)

// zzChain20: fixed fork tree  G(0) - A1(1) - A2(2) - A3(3),  A1 - B2(2) - B3(3)
type zzChain20 struct{}

var (
	zzNames20  = []string{"G", "A1", "A2", "A3", "B2", "B3"}
	zzParent20 = []int{-1, 0, 1, 2, 1, 4}
	zzNum20    = []uint32{0, 1, 2, 3, 2, 3}
)

func zzIdx20(h string) int {
	for i, n := range zzNames20 {
		if n == h {
			return i
		}
	}
	return -1
}

func zzIsAncestor20(a, b int) bool { // a is an ancestor of b, or b itself
	for x := b; x >= 0; x = zzParent20[x] {
		if x == a {
			return true
		}
	}
	return false
}

func (zzChain20) Ancestry(base, block string) ([]string, error) {
	b, x := zzIdx20(base), zzIdx20(block)
	if b < 0 || x < 0 || !zzIsAncestor20(b, x) {
		return nil, errors.New("zz: not a descendant")
	}
	var route []string
	for x = zzParent20[x]; x >= 0 && x != b; x = zzParent20[x] {
		route = append(route, zzNames20[x])
	}
	return route, nil
}

func (zzChain20) IsEqualOrDescendantOf(base, block string) bool {
	b, x := zzIdx20(base), zzIdx20(block)
	return b >= 0 && x >= 0 && zzIsAncestor20(b, x)
}

// zzVotes20: per voter, -1 = no vote, 0..5 = vote for that block, 6 = equivocation (A2 and B2)
type zzVotes20 []int

// weight of block b (votes on b or its descendants plus equivocators) and total participation
func (v zzVotes20) weight(b int) int {
	w := 0
	for _, x := range v {
		if x == 6 || (x >= 0 && zzIsAncestor20(b, x)) {
			w++
		}
	}
	return w
}

func (v zzVotes20) participation() (total, equivocators int) {
	for _, x := range v {
		if x >= 0 {
			total++
		}
		if x == 6 {
			equivocators++
		}
	}
	return
}

// highest block reachable from `from` by always descending to the child satisfying ok
// (at most one child can, otherwise the scenario is excluded by the caller); -1 if from fails
func zzGhost20(from int, ok func(int) bool) (int, bool) {
	if !ok(from) {
		return -1, true
	}
	cur := from
	for {
		next, cnt := -1, 0
		for c := range zzNames20 {
			if zzParent20[c] == cur && ok(c) {
				next = c
				cnt++
			}
		}
		if cnt > 1 {
			return cur, false // ambiguous (only possible with equivocations)
		}
		if cnt == 0 {
			return cur, true
		}
		cur = next
	}
}

func zzHighestAncestor20(from int, ok func(int) bool) int {
	for x := from; x >= 0; x = zzParent20[x] {
		if ok(x) {
			return x
		}
	}
	return -1
}

func zzImport20(r *Round[int, string, uint32, int], votes zzVotes20, prevote bool, reverse bool) {
	n := len(votes)
	for k := 0; k < n; k++ {
		voter := k
		if reverse {
			voter = n - 1 - k
		}
		targets := []int{votes[voter]}
		if votes[voter] == 6 {
			targets = []int{2, 4}
		}
		for _, b := range targets {
			if b < 0 {
				continue
			}
			if prevote {
				_, err := r.importPrevote(zzChain20{}, Prevote[string, uint32]{TargetHash: zzNames20[b], TargetNumber: zzNum20[b]}, voter, 100*voter+b)
				vrt.Assert("import_prevote_ok", err == nil)
			} else {
				_, err := r.importPrecommit(zzChain20{}, Precommit[string, uint32]{TargetHash: zzNames20[b], TargetNumber: zzNum20[b]}, voter, 100*voter+b)
				vrt.Assert("import_precommit_ok", err == nil)
			}
		}
	}
}

func zzSameHN20(got *HashNumber[string, uint32], want int) bool {
	if want < 0 {
		return got == nil
	}
	return got != nil && got.Hash == zzNames20[want] && got.Number == zzNum20[want]
}

// ZZ_C20_round_state: symbolic prevotes and precommits of n unit-weight voters (no vote, a vote for
// any block of the tree, or an equivocation between the two forks) are imported into a round in
// forward and in reverse voter order; prevote-GHOST, finalized block, estimate and completability
// equal the definitions over the vote weights, in both orders.
func ZZ_C20_round_state() {
	n := vrt.Param("voters", 4)
	var ws []IDWeight[int]
	for i := 0; i < n; i++ {
		ws = append(ws, IDWeight[int]{ID: i, Weight: 1})
	}
	voters := NewVoterSet(ws)
	vrt.Assert("voterset_ok", voters != nil)
	threshold := n - (n-1)/3 // supermajority: total weight minus the tolerated faulty weight
	vrt.Assert("threshold_matches_definition", int(voters.Threshold()) == threshold)
	pv, pc := make(zzVotes20, n), make(zzVotes20, n)
	for i := 0; i < n; i++ {
		sfx := string(rune('0' + i))
		pv[i] = zzVoteChoice20("prevote" + sfx)
		pc[i] = zzVoteChoice20("precommit" + sfx)
	}
	_, pvEquiv := pv.participation()
	pcTotal, pcEquiv := pc.participation()
	vrt.Assume(pvEquiv <= 1 && pcEquiv <= 1)

	// ---- the definitions
	pvTotal, _ := pv.participation()
	ghost, unamb := -1, true
	if pvTotal >= threshold {
		ghost, unamb = zzGhost20(0, func(b int) bool { return pv.weight(b) >= threshold })
	}
	vrt.Assume(unamb)
	finalized, estimate, completable := -1, -1, false
	if ghost >= 0 {
		if pcTotal >= threshold {
			finalized = zzHighestAncestor20(ghost, func(b int) bool { return pc.weight(b) >= threshold })
		}
		possible := func(b int) bool {
			tolerated := n - threshold
			additional := tolerated - pcEquiv
			if additional < 0 {
				additional = 0 // no further equivocations are tolerated
			}
			remaining := n - pcTotal
			committedFor := pc.weight(b)
			possibleEquiv := pcTotal - committedFor
			if possibleEquiv > additional {
				possibleEquiv = additional
			}
			return committedFor+remaining+possibleEquiv >= threshold
		}
		if pcTotal >= threshold {
			estimate = zzHighestAncestor20(ghost, possible)
			if estimate >= 0 {
				g2, un2 := zzGhost20(estimate, possible)
				vrt.Assume(un2)
				completable = estimate != ghost || g2 < 0 || g2 == ghost
			}
		} else {
			estimate = ghost
		}
	}

	for _, reverse := range []bool{false, true} {
		r := NewRound[int, string, uint32, int](RoundParams[int, string, uint32]{RoundNumber: 1, Voters: *voters,
			Base: HashNumber[string, uint32]{Hash: "G", Number: 0}})
		zzImport20(r, pv, true, reverse)
		zzImport20(r, pc, false, reverse)
		st := r.State()
		vrt.Observe("state", reverse, ghost, finalized, estimate, completable)
		vrt.Assert("prevote_ghost_matches_definition", zzSameHN20(st.PrevoteGHOST, ghost))
		if ghost >= 0 {
			vrt.Assert("finalized_matches_definition", zzSameHN20(st.Finalized, finalized))
			vrt.Assert("estimate_matches_definition", zzSameHN20(st.Estimate, estimate))
			if pcTotal >= threshold {
				vrt.Assert("completable_matches_definition", st.Completable == completable)
			}
		}
	}
	vrt.Reach("end")
}

// zzVoteChoice20: with param "votes"=0 every option (no vote, six blocks, equivocation); with 1 a
// reduced set that still has both forks, the fork point, abstention and equivocation.
func zzVoteChoice20(name string) int {
	if vrt.Param("votes", 0) == 1 {
		return []int{-1, 1, 3, 4, 5, 6}[vrt.Choice(name, 6)]
	}
	return vrt.Choice(name, 8) - 1
}
