package messages

import (
	vrt "github.com/ChainSafe/gossamer/internal/zzverif/vrt"
)

// ZZ_C31_plan: the requests planned for heights a..b cover [a,b] exactly once in ascending
// order with no request above the protocol maximum, for symbolic a and b (range length bounded).
func ZZ_C31_plan() {
	a, b := vrt.Uint("a"), vrt.Uint("b")
	vrt.Assume(b >= a)
	vrt.Assume(b-a < uint(vrt.Param("maxspan", 3*128+2)))
	vrt.Assume(b < 1<<40)
	reqs := NewAscendingBlockRequests(a, b, BootstrapRequestData)
	next := a
	for _, r := range reqs {
		start, ok := r.StartingBlock.RawValue().(uint)
		vrt.Assert("request_by_number", ok)
		vrt.Assert("ascending_direction", r.Direction == Ascending)
		vrt.Assert("contiguous_ascending_cover", start == next)
		vrt.Assert("max_present", r.Max != nil)
		if r.Max != nil {
			vrt.Assert("max_within_protocol_limit", vrt.And(*r.Max >= 1, *r.Max <= MaxBlocksInResponse))
			next = start + uint(*r.Max)
		}
	}
	vrt.Assert("covers_exactly_the_range", next == b+1)
	vrt.Reach("end")
}
