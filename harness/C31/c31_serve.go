package sync

import (
	"errors"

	"github.com/ChainSafe/gossamer/dot/network/messages"
	"github.com/ChainSafe/gossamer/dot/types"
	"github.com/ChainSafe/gossamer/internal/database"
	vrt "github.com/ChainSafe/gossamer/internal/zzverif/vrt"
	"github.com/ChainSafe/gossamer/lib/common"
	"github.com/ChainSafe/gossamer/lib/runtime"
)

// zzBS: a canonical chain 0..N plus one fork block F at height forkAt+1 (child of forkAt).
type zzBS struct {
	hdr    []*types.Header // index = block id; 0..N canonical (id == number), N+1 = fork block
	hash   []common.Hash
	parent []int
	n      int
}

func zzNewBS(n, forkAt int) *zzBS {
	b := &zzBS{n: n}
	add := func(parent int, num uint, tag byte) {
		ph := common.Hash{}
		if parent >= 0 {
			ph = b.hash[parent]
		}
		h := types.NewHeader(ph, common.Hash{}, common.Hash{tag}, num, types.NewDigest())
		b.hdr = append(b.hdr, h)
		b.hash = append(b.hash, h.Hash())
		b.parent = append(b.parent, parent)
	}
	add(-1, 0, 0)
	for i := 1; i <= n; i++ {
		add(i-1, uint(i), byte(i))
	}
	add(forkAt, uint(forkAt+1), 0xf0)
	return b
}

func (b *zzBS) idx(h common.Hash) int {
	for i, x := range b.hash {
		if x == h {
			return i
		}
	}
	return -1
}
func (b *zzBS) isAncestor(a, c int) bool {
	for x := c; x >= 0; x = b.parent[x] {
		if x == a {
			return true
		}
	}
	return false
}
func (b *zzBS) BestBlockHeader() (*types.Header, error) { return b.hdr[b.n], nil }
func (b *zzBS) BestBlockNumber() (uint, error)          { return uint(b.n), nil }
func (b *zzBS) CompareAndSetBlockData(*types.BlockData) error { return nil }
func (b *zzBS) GetBlockBody(h common.Hash) (*types.Body, error) {
	if b.idx(h) < 0 {
		return nil, database.ErrNotFound
	}
	return &types.Body{}, nil
}
func (b *zzBS) GetHeader(h common.Hash) (*types.Header, error) {
	if i := b.idx(h); i >= 0 {
		return b.hdr[i], nil
	}
	return nil, database.ErrNotFound
}
func (b *zzBS) HasHeader(h common.Hash) (bool, error) { return b.idx(h) >= 0, nil }
func (b *zzBS) Range(s, e common.Hash) ([]common.Hash, error) {
	si, ei := b.idx(s), b.idx(e)
	if si < 0 || ei < 0 {
		return nil, errors.New("zz: range: unknown block")
	}
	if !b.isAncestor(si, ei) {
		return nil, errors.New("zz: range: start is not an ancestor of end")
	}
	var rev []common.Hash
	for x := ei; x != b.parent[si]; x = b.parent[x] {
		rev = append(rev, b.hash[x])
	}
	out := make([]common.Hash, len(rev))
	for i := range rev {
		out[len(rev)-1-i] = rev[i]
	}
	return out, nil
}
func (b *zzBS) RangeInMemory(s, e common.Hash) ([]common.Hash, error) { return b.Range(s, e) }
func (b *zzBS) GetReceipt(common.Hash) ([]byte, error)                { return []byte{1}, nil }
func (b *zzBS) GetMessageQueue(common.Hash) ([]byte, error)           { return []byte{2}, nil }
func (b *zzBS) GetJustification(common.Hash) ([]byte, error)          { return []byte{3}, nil }
func (b *zzBS) SetFinalisedHash(common.Hash, uint64, uint64) error    { return nil }
func (b *zzBS) SetJustification(common.Hash, []byte) error            { return nil }
func (b *zzBS) GetHashByNumber(n uint) (common.Hash, error) {
	if n > uint(b.n) {
		return common.Hash{}, database.ErrNotFound
	}
	return b.hash[n], nil
}
func (b *zzBS) GetBlockByHash(common.Hash) (*types.Block, error)       { return nil, errors.New("zz") }
func (b *zzBS) GetRuntime(common.Hash) (runtime.Instance, error)       { return nil, errors.New("zz") }
func (b *zzBS) StoreRuntime(common.Hash, runtime.Instance)             {}
func (b *zzBS) GetHighestFinalisedHeader() (*types.Header, error)      { return b.hdr[0], nil }
func (b *zzBS) GetFinalisedNotifierChannel() chan *types.FinalisationInfo { return nil }
func (b *zzBS) GetHeaderByNumber(n uint) (*types.Header, error) {
	if n > uint(b.n) {
		return nil, database.ErrNotFound
	}
	return b.hdr[n], nil
}
func (b *zzBS) GetAllBlocksAtNumber(n uint) ([]common.Hash, error) {
	var out []common.Hash
	for i, h := range b.hdr {
		if h.Number == n {
			out = append(out, b.hash[i])
		}
	}
	return out, nil
}
func (b *zzBS) IsDescendantOf(p, c common.Hash) (bool, error) {
	pi, ci := b.idx(p), b.idx(c)
	if pi < 0 || ci < 0 {
		return false, errors.New("zz: unknown block")
	}
	return b.isAncestor(pi, ci), nil
}
func (b *zzBS) IsPaused() bool { return false }
func (b *zzBS) Pause() error   { return nil }

// ZZ_C31_serve: a served response is a gap-free chain starting at the requested block, in the
// requested direction, no longer than min(Max, protocol maximum), with exactly the requested
// fields.
func ZZ_C31_serve() {
	n := vrt.Param("chain", 6)
	bs := zzNewBS(n, 2)
	s := &SyncService{blockState: bs}
	fields := vrt.U8("fields")
	vrt.Assume(fields != 0)
	dir := messages.Ascending
	if vrt.Bool("descending") {
		dir = messages.Descending
	}
	req := &messages.BlockRequestMessage{RequestedData: fields, Direction: dir}
	limit := uint(messages.MaxBlocksInResponse)
	if vrt.Bool("has_max") {
		m := vrt.U32("max")
		vrt.Assume(m >= 1)
		req.Max = &m
		if uint(m) < limit {
			limit = uint(m)
		}
	}
	startID := -1
	byHash := vrt.Bool("by_hash")
	if byHash {
		startID = vrt.Choice("start_block", n+2)
		req.StartingBlock = *messages.NewFromBlock(bs.hash[startID])
	} else {
		num := vrt.Uint("start_number")
		vrt.Assume(vrt.And(num >= 1, num <= uint(n)))
		req.StartingBlock = *messages.NewFromBlock(num)
		startID = vrt.Concretize(int(num))
	}
	var resp *messages.BlockResponseMessage
	var err error
	if dir == messages.Ascending {
		resp, err = s.handleAscendingRequest(req)
	} else {
		resp, err = s.handleDescendingRequest(req)
	}
	if err != nil {
		// the property constrains served responses only (some requests from fork blocks or
		// from genesis are refused with an error; that is not a violation of the statement)
		vrt.Reach("end")
		return
	}
	vrt.Reach("served")
	bd := resp.BlockData
	vrt.Assert("non_empty", len(bd) >= 1)
	vrt.Assert("within_limits", uint(len(bd)) <= limit)
	if len(bd) >= 1 {
		vrt.Assert("starts_at_requested_block", bd[0].Hash == bs.hash[startID])
	}
	for i := 1; i < len(bd); i++ {
		a, b := bs.idx(bd[i-1].Hash), bs.idx(bd[i].Hash)
		ok := a >= 0 && b >= 0
		if ok {
			if dir == messages.Ascending {
				ok = bs.parent[b] == a
			} else {
				ok = bs.parent[a] == b
			}
		}
		vrt.Assert("gap_free_chain_in_direction", ok)
	}
	for _, d := range bd {
		vrt.Assert("header_iff_requested", (d.Header != nil) == (fields&messages.RequestedDataHeader != 0))
		vrt.Assert("body_iff_requested", (d.Body != nil) == (fields&messages.RequestedDataBody != 0))
		vrt.Assert("receipt_iff_requested", (d.Receipt != nil) == (fields&messages.RequestedDataReceipt != 0))
		vrt.Assert("msgqueue_iff_requested", (d.MessageQueue != nil) == (fields&messages.RequestedDataMessageQueue != 0))
		vrt.Assert("justification_iff_requested", (d.Justification != nil) == (fields&messages.RequestedDataJustification != 0))
	}
	vrt.Reach("end")
}
