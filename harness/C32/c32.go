package sync

import (
	"container/list"
	"errors"

	"github.com/ChainSafe/gossamer/dot/network/messages"
	"github.com/ChainSafe/gossamer/dot/types"
	"github.com/ChainSafe/gossamer/internal/database"
	vrt "github.com/ChainSafe/gossamer/internal/zzverif/vrt"
	"github.com/ChainSafe/gossamer/lib/common"
	"github.com/ChainSafe/gossamer/lib/runtime"
	"github.com/libp2p/go-libp2p/core/peer"
)

// universe: G(0) - B1 - B2 - B3 and the fork B1 - F2 - F3; G is known and finalised.
type zzWorld32 struct {
	hdr    []*types.Header
	hash   []common.Hash
	parent []int
	known  []bool // headers the block state has
	// what the importer was handed (effective imports, i.e. not skipped as already known)
	importedTimes []int
}

func zzNewWorld32() *zzWorld32 {
	w := &zzWorld32{}
	add := func(parent int, num uint, tag byte) {
		ph := common.Hash{}
		if parent >= 0 {
			ph = w.hash[parent]
		}
		h := types.NewHeader(ph, common.Hash{}, common.Hash{tag}, num, types.NewDigest())
		w.hdr = append(w.hdr, h)
		w.hash = append(w.hash, h.Hash())
		w.parent = append(w.parent, parent)
		w.known = append(w.known, parent < 0)
		w.importedTimes = append(w.importedTimes, 0)
	}
	add(-1, 0, 0xf0) // 0 G
	add(0, 1, 0xb1)  // 1 B1
	add(1, 2, 0xb2)  // 2 B2
	add(2, 3, 0xb3)  // 3 B3
	add(1, 2, 0xf2)  // 4 F2
	add(4, 3, 0xf3)  // 5 F3
	return w
}

func (w *zzWorld32) idx(h common.Hash) int {
	for i, x := range w.hash {
		if x == h {
			return i
		}
	}
	return -1
}

// ---- BlockState (only what the strategy uses is meaningful)
func (w *zzWorld32) HasHeader(h common.Hash) (bool, error) {
	i := w.idx(h)
	return i >= 0 && w.known[i], nil
}
func (w *zzWorld32) GetHighestFinalisedHeader() (*types.Header, error)        { return w.hdr[0], nil }
func (w *zzWorld32) BestBlockHeader() (*types.Header, error)                   { return w.hdr[0], nil }
func (w *zzWorld32) BestBlockNumber() (uint, error)                            { return 0, nil }
func (w *zzWorld32) CompareAndSetBlockData(*types.BlockData) error             { return nil }
func (w *zzWorld32) GetBlockBody(common.Hash) (*types.Body, error)             { return nil, database.ErrNotFound }
func (w *zzWorld32) GetHeader(h common.Hash) (*types.Header, error) {
	if i := w.idx(h); i >= 0 && w.known[i] {
		return w.hdr[i], nil
	}
	return nil, database.ErrNotFound
}
func (w *zzWorld32) Range(s, e common.Hash) ([]common.Hash, error)            { return nil, errors.New("zz") }
func (w *zzWorld32) RangeInMemory(s, e common.Hash) ([]common.Hash, error)    { return nil, errors.New("zz") }
func (w *zzWorld32) GetReceipt(common.Hash) ([]byte, error)                   { return nil, errors.New("zz") }
func (w *zzWorld32) GetMessageQueue(common.Hash) ([]byte, error)              { return nil, errors.New("zz") }
func (w *zzWorld32) GetJustification(common.Hash) ([]byte, error)             { return nil, errors.New("zz") }
func (w *zzWorld32) SetFinalisedHash(common.Hash, uint64, uint64) error       { return nil }
func (w *zzWorld32) SetJustification(common.Hash, []byte) error               { return nil }
func (w *zzWorld32) GetHashByNumber(n uint) (common.Hash, error)              { return common.Hash{}, errors.New("zz") }
func (w *zzWorld32) GetBlockByHash(common.Hash) (*types.Block, error)         { return nil, errors.New("zz") }
func (w *zzWorld32) GetRuntime(common.Hash) (runtime.Instance, error)         { return nil, errors.New("zz") }
func (w *zzWorld32) StoreRuntime(common.Hash, runtime.Instance)               {}
func (w *zzWorld32) GetFinalisedNotifierChannel() chan *types.FinalisationInfo { return nil }
func (w *zzWorld32) GetHeaderByNumber(n uint) (*types.Header, error)          { return nil, errors.New("zz") }
func (w *zzWorld32) GetAllBlocksAtNumber(n uint) ([]common.Hash, error)       { return nil, nil }
func (w *zzWorld32) IsDescendantOf(p, c common.Hash) (bool, error)            { return false, errors.New("zz") }
func (w *zzWorld32) IsPaused() bool                                           { return false }
func (w *zzWorld32) Pause() error                                             { return nil }

// ---- importer: like the real block importer it skips a block whose stated hash is already
// known; otherwise it imports the header it was given.
func (w *zzWorld32) importBlock(bd *types.BlockData, _ BlockOrigin) (bool, error) {
	if has, _ := w.HasHeader(bd.Hash); has {
		return false, nil
	}
	vrt.Assert("imported_block_has_header", bd.Header != nil)
	i := w.idx(bd.Header.Hash())
	vrt.Assert("imported_block_is_a_real_block", i >= 0)
	vrt.Assert("stated_hash_is_header_hash", bd.Hash == bd.Header.Hash())
	vrt.Assert("parent_known_before_import", w.parent[i] >= 0 && w.known[w.parent[i]])
	w.importedTimes[i]++
	vrt.Assert("never_imported_twice", w.importedTimes[i] == 1)
	w.known[i] = true
	return true, nil
}

var zzSegments32 = [][]int{{1}, {1, 2}, {1, 2, 3}, {2}, {2, 3}, {3}, {4}, {1, 4}, {4, 5}, {1, 4, 5}}

// ZZ_C32_process: two block responses, each a symbolic segment of the universe, optionally
// corrupted (a stated hash that is not the header's hash, or blocks out of chain order), are
// processed together in symbolic order. The importer is handed every block at most once, only
// after its parent is known, and never a block from a corrupted response.
func ZZ_C32_process() {
	w := zzNewWorld32()
	f := &FullSyncStrategy{
		blockState:    w,
		blockImporter: w,
		unreadyBlocks: newUnreadyBlocks(),
		requestQueue:  &requestsQueue[*messages.BlockRequestMessage]{queue: list.New()},
		peers:         &peerViewSet{view: make(map[peer.ID]peerView)},
	}
	nresp := vrt.Param("responses", 2)
	inValid := make([]bool, len(w.hdr)) // block delivered by some uncorrupted response
	var results []*SyncTaskResult
	for r := 0; r < nresp; r++ {
		sfx := string(rune('0' + r))
		seg := zzSegments32[vrt.Choice("segment"+sfx, len(zzSegments32))]
		corrupt := vrt.Choice("corrupt"+sfx, 3) // 0 none, 1 stated hash of the first block, 2 reversed order
		vrt.Assume(!(seg[len(seg)-1] == 4 && len(seg) == 2 && false))
		var bds []*types.BlockData
		for _, b := range seg {
			body := types.Body{}
			bds = append(bds, &types.BlockData{Hash: w.hash[b], Header: w.hdr[b], Body: &body})
		}
		switch corrupt {
		case 1:
			bds[0].Hash = common.Hash{0xba, 0xd0, byte(r)}
		case 2:
			vrt.Assume(len(bds) >= 2)
			bds[0], bds[len(bds)-1] = bds[len(bds)-1], bds[0]
		}
		if corrupt == 0 {
			for _, b := range seg {
				inValid[b] = true
			}
		}
		req := messages.NewBlockRequest(*messages.NewFromBlock(uint(w.hdr[seg[0]].Number)), uint32(len(seg)),
			messages.BootstrapRequestData, messages.Ascending)
		results = append(results, &SyncTaskResult{who: peer.ID("p" + sfx), completed: true, request: req,
			response: &messages.BlockResponseMessage{BlockData: bds}})
	}
	_, _, _, err := f.Process(results)
	vrt.Observe("process", err != nil)
	vrt.Assert("process_ok", err == nil)
	for b := 1; b < len(w.hdr); b++ {
		if w.importedTimes[b] > 0 {
			vrt.Assert("imported_block_came_in_a_valid_response", inValid[b])
		}
	}
	vrt.Reach("end")
}
