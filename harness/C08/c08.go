package storage

import (
	vrt "github.com/ChainSafe/gossamer/internal/zzverif/vrt"
	inmemory_trie "github.com/ChainSafe/gossamer/pkg/trie/inmemory"
)

// ---- reference: overlay semantics as a stack of association lists (a transaction start
// copies the visible contents, a rollback drops the copy, a commit replaces the parent's).

type zzRef08 struct {
	keys, vals [][]byte
}

func (r *zzRef08) clone() *zzRef08 {
	return &zzRef08{keys: append([][]byte{}, r.keys...), vals: append([][]byte{}, r.vals...)}
}

func (r *zzRef08) find(k []byte) int {
	for i := range r.keys {
		if vrt.BytesEq(r.keys[i], k) { // forks
			return i
		}
	}
	return -1
}

func (r *zzRef08) put(k, v []byte) {
	if i := r.find(k); i >= 0 {
		r.vals[i] = v
		return
	}
	r.keys = append(r.keys, k)
	r.vals = append(r.vals, v)
}

func (r *zzRef08) del(k []byte) {
	if i := r.find(k); i >= 0 {
		r.keys = append(r.keys[:i:i], r.keys[i+1:]...)
		r.vals = append(r.vals[:i:i], r.vals[i+1:]...)
	}
}

func zzHasPrefix08(k, p []byte) bool {
	if len(p) > len(k) {
		return false
	}
	return vrt.BytesEq(k[:len(p)], p)
}

func (r *zzRef08) clearPrefix(p []byte) {
	var nk, nv [][]byte
	for i := range r.keys {
		if !zzHasPrefix08(r.keys[i], p) { // forks
			nk = append(nk, r.keys[i])
			nv = append(nv, r.vals[i])
		}
	}
	r.keys, r.vals = nk, nv
}

func zzLess08(a, b []byte) bool {
	n := len(a)
	if len(b) < n {
		n = len(b)
	}
	res := len(a) < len(b)
	for i := n - 1; i >= 0; i-- {
		res = vrt.Or(a[i] < b[i], vrt.And(a[i] == b[i], res))
	}
	return res
}

func (r *zzRef08) nextKey(q []byte) []byte {
	var best []byte
	for _, k := range r.keys {
		if zzLess08(q, k) { // forks
			if best == nil || zzLess08(k, best) {
				best = k
			}
		}
	}
	return best
}

func zzKey08(name string, minLen, maxLen int) []byte {
	n := vrt.Range(name+"_len", minLen, maxLen)
	b := vrt.Bytes(name, n)
	a := byte(vrt.Param("alpha", 2))
	for _, x := range b {
		vrt.Assume(vrt.And(x&0x0f < a, x>>4 < a))
	}
	return b
}

func zzSame08(got, want []byte) bool {
	if want == nil {
		return got == nil
	}
	return vrt.And(got != nil, vrt.BytesEq(got, want))
}

func zzZeroLow08(p []byte) bool {
	if len(p) == 0 {
		return false
	}
	return p[len(p)-1]&0x0f == 0
}

// zzSkeleton08 is the fixed transaction structure of the "nested" variants: an outer transaction
// with two writes (put / set-child), a nested transaction with one symbolic data operation that
// is committed or rolled back. Keys, values and the nested operation stay symbolic.
// (3 = start, 0 = write, -1 = any data operation, -2 = commit or rollback.)
var zzSkeleton08 = []int{3, 0, 0, 3, -1, -2}

// the child variant: one symbolic operation in the outer and one in the nested transaction
var zzChildSkeleton08 = []int{3, -1, 3, -1, -2}

func zzOpKind08(nested bool, skeleton []int, s int, sfx string) int {
	if !nested {
		return vrt.Choice("op"+sfx, 6)
	}
	switch k := skeleton[s]; k {
	case -1:
		return vrt.Choice("op"+sfx, 3)
	case -2:
		return 4 + vrt.Choice("op"+sfx, 2)
	default:
		return k
	}
}

// ZZ_C08_overlay: a symbolic sequence of put / delete / clear-prefix / start / commit / rollback
// on the main storage; after every operation a symbolic get and next-key agree with the
// reference overlay semantics, and after committing everything the contents and root are those of
// a trie holding the reference contents.
func ZZ_C08_overlay() {
	ml := vrt.Param("maxlen", 1)
	base := inmemory_trie.NewEmptyTrie()
	ref := &zzRef08{}
	for i := 0; i < vrt.Param("basekeys", 1); i++ {
		sfx := string(rune('0' + i))
		k, v := zzKey08("b"+sfx, 1, ml), vrt.Bytes("bv"+sfx, 1)
		vrt.Assert("put_ok", base.Put(k, v) == nil)
		ref.put(k, v)
	}
	ts := NewTrieState(base)
	stack := []*zzRef08{ref}
	top := func() *zzRef08 { return stack[len(stack)-1] }
	nops := vrt.Param("ops", 3)
	nested := vrt.Param("nested", 0) == 1 || zzForceNested08
	if nested {
		nops = len(zzSkeleton08)
	}
	kfZeroLow := false // some clear-prefix so far ran directly on the trie with a zero-low-nibble prefix (known finding T3)
	for s := 0; s < nops; s++ {
		sfx := string(rune('0' + s))
		switch zzOpKind08(nested, zzSkeleton08, s, sfx) {
		case 0:
			k, v := zzKey08("k"+sfx, 1, ml), vrt.Bytes("v"+sfx, 1)
			vrt.Assert("put_ok", ts.Put(k, v) == nil)
			top().put(k, v)
		case 1:
			k := zzKey08("k"+sfx, 1, ml)
			vrt.Assert("delete_ok", ts.Delete(k) == nil)
			top().del(k)
		case 2:
			p := zzKey08("p"+sfx, 0, ml)
			kfZeroLow = vrt.Or(kfZeroLow, vrt.And(zzZeroLow08(p), len(stack) == 1))
			vrt.Ghost("kf_p_zero_low", kfZeroLow)
			vrt.Assert("clear_ok", ts.ClearPrefix(p) == nil)
			top().clearPrefix(p)
		case 3:
			ts.StartTransaction()
			stack = append(stack, top().clone())
		case 4:
			vrt.Assume(len(stack) > 1)
			ts.CommitTransaction()
			stack[len(stack)-2] = top()
			stack = stack[:len(stack)-1]
		case 5:
			vrt.Assume(len(stack) > 1)
			ts.RollbackTransaction()
			stack = stack[:len(stack)-1]
		}
		if s != nops-1 && vrt.Param("readeach", 0) == 0 && !(nested && s == 5) {
			continue // reads after the last operation only (shorter sequences are covered by smaller "ops")
		}
		q := zzKey08("q"+sfx, 1, ml)
		want := []byte(nil)
		if i := top().find(q); i >= 0 {
			want = top().vals[i]
		}
		vrt.Assert("get_matches_overlay", zzSame08(ts.Get(q), want))
		vrt.Assert("next_key_matches_overlay", zzSame08(ts.NextKey(q), top().nextKey(q)))
	}
	for len(stack) > 1 {
		ts.CommitTransaction()
		stack[len(stack)-2] = top()
		stack = stack[:len(stack)-1]
	}
	final := top()
	vrt.Assert("final_entry_count", len(ts.TrieEntries()) == len(final.keys))
	direct := inmemory_trie.NewEmptyTrie()
	for i := range final.keys {
		vrt.Assert("put_ok", direct.Put(final.keys[i], final.vals[i]) == nil)
		vrt.Assert("final_value", zzSame08(ts.Get(final.keys[i]), final.vals[i]))
	}
	vrt.Assert("final_root", ts.Trie().MustHash() == direct.MustHash())
	vrt.Reach("end")
}

// ZZ_C08_child: the same for one child trie: set / clear key / delete child / start / commit /
// rollback; child reads and the child key listing agree with the reference after the sequence and
// after committing everything.
func ZZ_C08_child() {
	base := inmemory_trie.NewEmptyTrie()
	vrt.Assert("put_ok", base.Put([]byte{0x77}, []byte{1}) == nil)
	keyToChild := []byte("c")
	ref := &zzRef08{}
	if vrt.Bool("child_in_state") {
		k, v := zzKey08("b0", 1, 1), vrt.Bytes("bv0", 1)
		vrt.Assert("put_ok", base.PutIntoChild(keyToChild, k, v) == nil)
		ref.put(k, v)
	}
	ts := NewTrieState(base)
	stack := []*zzRef08{ref}
	top := func() *zzRef08 { return stack[len(stack)-1] }
	check := func(tag string) {
		q := zzKey08("q"+tag, 1, 1)
		want := []byte(nil)
		if i := top().find(q); i >= 0 {
			want = top().vals[i]
		}
		got, err := ts.GetChildStorage(keyToChild, q)
		if err != nil {
			got = nil // a missing child trie reads as absent
		}
		vrt.Observe("child_get_"+tag, got == nil, want == nil, err != nil)
		vrt.Assert("child_get_matches_overlay", zzSame08(got, want))
		keys, err := ts.GetKeysWithPrefixFromChild(keyToChild, []byte{})
		if err != nil {
			keys = nil
		}
		vrt.Observe("child_keys_"+tag, len(keys), len(top().keys))
		vrt.Assert("child_keys_count", len(keys) == len(top().keys))
		for _, k := range top().keys {
			found := false
			for _, g := range keys {
				found = vrt.Or(found, vrt.BytesEq(g, k))
			}
			vrt.Assert("child_keys_complete", found)
		}
	}
	nops := vrt.Param("ops", 3)
	// known finding D1: the child was deleted in a still open transaction and written again
	// afterwards; killed[d] = the child was deleted while d transactions were open (d >= 1)
	killed := []bool{false}
	kfSetAfterKill := false
	nested := vrt.Param("nested", 0) == 1 || zzForceNested08
	if nested {
		nops = len(zzChildSkeleton08)
	}
	for s := 0; s < nops; s++ {
		sfx := string(rune('0' + s))

		switch zzOpKind08(nested, zzChildSkeleton08, s, sfx) {
		case 0:
			k, v := zzKey08("k"+sfx, 1, 1), vrt.Bytes("v"+sfx, 1)
			vrt.Assert("set_ok", ts.SetChildStorage(keyToChild, k, v) == nil)
			top().put(k, v)
			if len(stack) > 1 && killed[len(killed)-1] {
				kfSetAfterKill = true
			}
			vrt.Ghost("kf_set_after_child_delete", kfSetAfterKill)
		case 1:
			k := zzKey08("k"+sfx, 1, 1)
			_ = ts.ClearChildStorage(keyToChild, k) // clearing in a missing child may report it
			top().del(k)
		case 2:
			_ = ts.DeleteChild(keyToChild)
			stack[len(stack)-1] = &zzRef08{}
			killed[len(killed)-1] = len(stack) > 1
		case 3:
			ts.StartTransaction()
			stack = append(stack, top().clone())
			killed = append(killed, killed[len(killed)-1])
		case 4:
			vrt.Assume(len(stack) > 1)
			ts.CommitTransaction()
			stack[len(stack)-2] = top()
			stack = stack[:len(stack)-1]
			killed[len(killed)-2] = killed[len(killed)-1] && len(stack) > 1
			killed = killed[:len(killed)-1]
		case 5:
			vrt.Assume(len(stack) > 1)
			ts.RollbackTransaction()
			stack = stack[:len(stack)-1]
			killed = killed[:len(killed)-1]
		}
	}
	check("a")
	for len(stack) > 1 {
		ts.CommitTransaction()
		stack[len(stack)-2] = top()
		stack = stack[:len(stack)-1]
	}
	check("b")
	vrt.Reach("end")
}

var zzForceNested08 bool

// ZZ_C08_overlay_nested / ZZ_C08_child_nested: the same harnesses over the fixed nested
// transaction structure zzSkeleton08 (longer sequences than the free-form variants reach).
func ZZ_C08_overlay_nested() {
	zzForceNested08 = true
	ZZ_C08_overlay()
}

func ZZ_C08_child_nested() {
	zzForceNested08 = true
	ZZ_C08_child()
}
