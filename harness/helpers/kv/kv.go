// Package kv is a harness stand-in for the key-value database (virtual package
// /repo/internal/zzverif/kv, overlay only). It is an association list over byte strings:
// key equality is decided by the solver when keys are symbolic. Batches are applied
// atomically on Flush. Every applied write is appended to Log (used by the
// crash-consistency harnesses).
package kv

import (
	"bytes"
	"sort"

	"github.com/ChainSafe/gossamer/internal/database"
	vrt "github.com/ChainSafe/gossamer/internal/zzverif/vrt"
)

type Op struct {
	Del   bool
	Key   []byte
	Value []byte
}

// DB implements database.Database.
type DB struct {
	keys, vals [][]byte
	// Log is the sequence of applied write groups (a direct Put/Del is a group of one, a
	// flushed batch is one group).
	Log [][]Op
}

func New() *DB { return &DB{} }

func cp(b []byte) []byte { return append([]byte{}, b...) }

func (d *DB) find(key []byte) int {
	for i := range d.keys {
		if vrt.BytesEq(d.keys[i], key) { // forks on symbolic equality
			return i
		}
	}
	return -1
}

func (d *DB) apply(op Op) {
	i := d.find(op.Key)
	if op.Del {
		if i >= 0 {
			d.keys = append(d.keys[:i:i], d.keys[i+1:]...)
			d.vals = append(d.vals[:i:i], d.vals[i+1:]...)
		}
		return
	}
	if i >= 0 {
		d.vals[i] = cp(op.Value)
		return
	}
	d.keys = append(d.keys, cp(op.Key))
	d.vals = append(d.vals, cp(op.Value))
}

// Apply replays a write group (used to rebuild the state after a simulated crash).
func (d *DB) Apply(group []Op) {
	for _, op := range group {
		d.apply(op)
	}
}

func (d *DB) Get(key []byte) ([]byte, error) {
	if i := d.find(key); i >= 0 {
		return cp(d.vals[i]), nil
	}
	return nil, database.ErrNotFound
}

func (d *DB) Has(key []byte) (bool, error) { return d.find(key) >= 0, nil }

func (d *DB) Put(key, value []byte) error {
	op := Op{Key: cp(key), Value: cp(value)}
	d.apply(op)
	d.Log = append(d.Log, []Op{op})
	return nil
}

func (d *DB) Del(key []byte) error {
	op := Op{Del: true, Key: cp(key)}
	d.apply(op)
	d.Log = append(d.Log, []Op{op})
	return nil
}

func (d *DB) Flush() error { return nil }
func (d *DB) Close() error { return nil }
func (d *DB) Path() string { return "zzverif-kv" }
func (d *DB) Len() int     { return len(d.keys) }

type batch struct {
	db  *DB
	ops []Op
}

func (d *DB) NewBatch() database.Batch { return &batch{db: d} }

func (b *batch) Put(key, value []byte) error {
	b.ops = append(b.ops, Op{Key: cp(key), Value: cp(value)})
	return nil
}
func (b *batch) Del(key []byte) error {
	b.ops = append(b.ops, Op{Del: true, Key: cp(key)})
	return nil
}
func (b *batch) Flush() error {
	if len(b.ops) == 0 {
		return nil
	}
	for _, op := range b.ops {
		b.db.apply(op)
	}
	b.db.Log = append(b.db.Log, b.ops)
	b.ops = nil
	return nil
}
func (b *batch) ValueSize() int { return len(b.ops) }
func (b *batch) Reset()         { b.ops = nil }
func (b *batch) Close() error   { return nil }

type iter struct {
	keys, vals [][]byte
	pos        int
}

func (d *DB) NewIterator() (database.Iterator, error) { return d.NewPrefixIterator(nil) }

func (d *DB) NewPrefixIterator(prefix []byte) (database.Iterator, error) {
	it := &iter{pos: -1}
	var idx []int
	for i, k := range d.keys {
		if bytes.HasPrefix(k, prefix) {
			idx = append(idx, i)
		}
	}
	sort.Slice(idx, func(a, b int) bool { return bytes.Compare(d.keys[idx[a]], d.keys[idx[b]]) < 0 })
	for _, i := range idx {
		it.keys = append(it.keys, cp(d.keys[i]))
		it.vals = append(it.vals, cp(d.vals[i]))
	}
	return it, nil
}

func (it *iter) Valid() bool  { return it.pos >= 0 && it.pos < len(it.keys) }
func (it *iter) Next() bool   { it.pos++; return it.Valid() }
func (it *iter) First() bool  { it.pos = 0; return it.Valid() }
func (it *iter) Key() []byte  { return it.keys[it.pos] }
func (it *iter) Value() []byte { return it.vals[it.pos] }
func (it *iter) Release()     {}
func (it *iter) Close() error { return nil }
func (it *iter) SeekGE(key []byte) bool {
	for it.pos = 0; it.pos < len(it.keys); it.pos++ {
		if bytes.Compare(it.keys[it.pos], key) >= 0 {
			return true
		}
	}
	return false
}
