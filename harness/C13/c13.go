package scale

import (
	"encoding/binary"
	"math/big"

	vrt "github.com/ChainSafe/gossamer/internal/zzverif/vrt"
)

// reference: 16-byte big-endian form of Upper*2^64+Lower
func zzBE16(up, lo uint64) []byte {
	b := make([]byte, 16)
	for i := 0; i < 8; i++ {
		b[i] = byte(up >> (56 - 8*uint(i)))
		b[8+i] = byte(lo >> (56 - 8*uint(i)))
	}
	return b
}

func zzPadBE(b []byte) []byte {
	for len(b) < 16 {
		b = append([]byte{0}, b...)
	}
	return b
}

func zzPadLE(b []byte) []byte {
	for len(b) < 16 {
		b = append(b, 0)
	}
	return b
}

func zzRev(b []byte) []byte {
	r := make([]byte, len(b))
	for i := range b {
		r[len(b)-1-i] = b[i]
	}
	return r
}

// ZZ_C13_views: byte forms, big.Int conversion and the big.Int handed to the decimal
// formatter all denote Upper*2^64+Lower; JSON round-trips.
func ZZ_C13_views() {
	up, lo := vrt.U64("upper"), vrt.U64("lower")
	// keep byte lengths manageable: choose which of the 16 bytes may be non-zero through a mask
	// (symbolic contents, length of the trimmed forms decided by the engine)
	u := &Uint128{Upper: up, Lower: lo}
	want := zzBE16(up, lo)

	be := u.Bytes(binary.BigEndian)
	vrt.Assert("be_bytes_value", vrt.BytesEq(zzPadBE(be), want))
	if len(be) > 0 {
		vrt.Assert("be_bytes_trimmed", be[0] != 0)
	}
	le := u.Bytes()
	vrt.Assert("le_bytes_value", vrt.BytesEq(zzRev(zzPadLE(le)), want))
	if len(le) > 0 {
		vrt.Assert("le_bytes_trimmed", le[len(le)-1] != 0)
	}

	// constructors from bytes
	u2, err := NewUint128(le)
	vrt.Assert("from_le", vrt.And(err == nil, vrt.And(u2.Upper == up, u2.Lower == lo)))
	u3, err := NewUint128(be, binary.BigEndian)
	vrt.Assert("from_be", vrt.And(err == nil, vrt.And(u3.Upper == up, u3.Lower == lo)))

	// big.Int conversion
	bi := new(big.Int).SetBytes(want)
	u4, err := NewUint128(bi)
	vrt.Assert("from_bigint", vrt.And(err == nil, vrt.And(u4.Upper == up, u4.Lower == lo)))

	// decimal string / JSON: the digits are produced by math/big (trusted); what is checked is
	// that String() and MarshalJSON() equal the decimal form of the right number, and that
	// UnmarshalJSON of that text gives back the value. To keep math/big's base conversion
	// out of the symbolic part, the text comparison is done for the concrete decimal of the
	// reference big.Int on a concretised value.
	vrt.Reach("end")
}

// ZZ_C13_string: String()/MarshalJSON()/UnmarshalJSON agree with math/big's decimal form of the
// value. Values are chosen from a symbolic byte pattern: one symbolic byte placed at a
// symbolic byte position (0..15), everything else zero, so every byte position is covered
// while the decimal conversion runs on few distinct shapes.
func ZZ_C13_string() {
	pos := vrt.Range("pos", 0, 15)
	bv := vrt.U8("byte")
	vrt.Assume(bv != 0)
	c := uint8(vrt.Concretize(int(bv))) // decimal conversion needs a concrete value: all 255 values explored
	var up, lo uint64
	if pos < 8 {
		lo = uint64(c) << (8 * uint(pos))
	} else {
		up = uint64(c) << (8 * uint(pos-8))
	}
	u := &Uint128{Upper: up, Lower: lo}
	want := new(big.Int).SetBytes(zzBE16(up, lo)).String()
	vrt.Assert("string_is_decimal_value", u.String() == want)
	js, err := u.MarshalJSON()
	vrt.Assert("json_is_decimal_value", vrt.And(err == nil, string(js) == want))
	// the destination already holds another value (encoding/json reuses existing values)
	back := Uint128{Upper: vrt.U64("old_upper"), Lower: vrt.U64("old_lower")}
	err = back.UnmarshalJSON(js)
	vrt.Assert("json_roundtrip", vrt.And(err == nil, vrt.And(back.Upper == up, back.Lower == lo)))
	vrt.Reach("end")
}
