package state

import (
	"encoding/json"
	"time"

	"github.com/ChainSafe/gossamer/dot/types"
	"github.com/ChainSafe/gossamer/internal/zzverif/kv"
	vrt "github.com/ChainSafe/gossamer/internal/zzverif/vrt"
	"github.com/ChainSafe/gossamer/lib/common"
	inmemory_trie "github.com/ChainSafe/gossamer/pkg/trie/inmemory"
)

type zzTree17 struct {
	parent []int
	hdr    []*types.Header
}

func (t *zzTree17) isAncestorOrSelf(a, b int) bool {
	for b >= 0 {
		if a == b {
			return true
		}
		b = t.parent[b]
	}
	return false
}

// ZZ_C17_finalisation: a block state created from genesis receives a symbolic tree of blocks (each
// with its own state trie in the trie cache) and two finalisation attempts for symbolic blocks.
// An attempt succeeds iff the block descends from (or is) the current finalised head, otherwise
// it fails and changes nothing; after a success every block of the finalised chain is found by
// number in the database, and no block of an abandoned fork is left among the unfinalised blocks
// or keeps its trie in memory.
func ZZ_C17_finalisation() {
	n := vrt.Param("blocks", 4)
	t := &zzTree17{parent: []int{-1}}
	dg0 := types.NewDigest()
	genesis := &types.Header{Number: 0, Digest: dg0, StateRoot: common.Hash{0xf0}}
	t.hdr = []*types.Header{genesis}
	tries := NewTries()
	bs, err := NewBlockStateFromGenesis(kv.New(), tries, genesis, zzNoTelemetry17{})
	vrt.Assert("genesis_ok", err == nil && bs != nil)
	if bs == nil {
		return
	}
	tries.softSet(genesis.StateRoot, inmemory_trie.NewEmptyTrie())
	for i := 1; i <= n; i++ {
		p := 0
		if i > 1 {
			p = vrt.Choice("parent"+string(rune('0'+i)), i)
		}
		dg := types.NewDigest()
		pd, err := types.NewBabeSecondaryPlainPreDigest(0, uint64(100+i)).ToPreRuntimeDigest()
		if err != nil {
			panic(err)
		}
		if err := dg.Add(*pd); err != nil {
			panic(err)
		}
		h := &types.Header{ParentHash: t.hdr[p].Hash(), Number: t.hdr[p].Number + 1, Digest: dg, StateRoot: common.Hash{byte(i)}}
		t.parent = append(t.parent, p)
		t.hdr = append(t.hdr, h)
		vrt.Assert("addblock_ok", bs.AddBlockWithArrivalTime(&types.Block{Header: *h, Body: types.Body{}}, time.Unix(int64(1000+i), 0)) == nil)
		tries.softSet(h.StateRoot, inmemory_trie.NewEmptyTrie())
	}
	last := 0
	for step := 0; step < 2; step++ {
		f := vrt.Choice("fin"+string(rune('0'+step)), n+1)
		err := bs.SetFinalisedHash(t.hdr[f].Hash(), uint64(step+1), 0)
		ok := t.isAncestorOrSelf(last, f)
		vrt.Observe("finalise", step, f, last, err != nil)
		vrt.Assert("finalisation_succeeds_iff_descendant", (err == nil) == ok)
		if ok && err == nil {
			last = f
		}
		head, err := bs.GetHighestFinalisedHash()
		vrt.Assert("finalised_head_is_last_successful", err == nil && head == t.hdr[last].Hash())
		for b := 0; b <= n; b++ {
			hash := t.hdr[b].Hash()
			onChain := t.isAncestorOrSelf(b, last)
			abandoned := !onChain && !t.isAncestorOrSelf(last, b)
			if onChain {
				got, err := bs.db.Get(headerHashKey(uint64(t.hdr[b].Number)))
				vrt.Assert("finalised_block_by_number_in_db", err == nil && common.BytesToHash(got) == hash)
				hd, err := bs.GetHeader(hash)
				vrt.Assert("finalised_header_readable", err == nil && hd != nil && hd.Number == t.hdr[b].Number)
			}
			if abandoned {
				vrt.Assert("abandoned_block_not_unfinalised", bs.unfinalisedBlocks.getBlock(hash) == nil)
				vrt.Assert("abandoned_trie_not_in_memory", tries.get(t.hdr[b].StateRoot) == nil)
			}
			if !onChain && !abandoned { // still unfinalised descendants of the head stay available
				vrt.Assert("descendant_still_unfinalised", bs.unfinalisedBlocks.getBlock(hash) != nil)
			}
		}
	}
	vrt.Reach("end")
}

type zzNoTelemetry17 struct{}

func (zzNoTelemetry17) SendMessage(json.Marshaler) {}
