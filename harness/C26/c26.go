package state

import (
	"time"

	"github.com/ChainSafe/gossamer/dot/types"
	"github.com/ChainSafe/gossamer/internal/database"
	"github.com/ChainSafe/gossamer/internal/zzverif/kv"
	vrt "github.com/ChainSafe/gossamer/internal/zzverif/vrt"
	"github.com/ChainSafe/gossamer/lib/blocktree"
	"github.com/ChainSafe/gossamer/lib/common"
)

type zzTree26 struct {
	parent []int
	hdr    []*types.Header
}

func (t *zzTree26) isAncestorOrSelf(a, b int) bool {
	for b >= 0 {
		if a == b {
			return true
		}
		b = t.parent[b]
	}
	return false
}

// zzBuild26 builds a symbolic-shape tree of n blocks below a root whose headers are known to a
// block state reduced to its block tree and its map of unfinalised blocks.
func zzBuild26(n int) (*zzTree26, *BlockState) {
	t := &zzTree26{parent: []int{-1}}
	root := &types.Header{Number: 0, Digest: types.NewDigest()}
	t.hdr = []*types.Header{root}
	bt := blocktree.NewBlockTreeFromRoot(root)
	bs := &BlockState{bt: bt, unfinalisedBlocks: newHashToBlockMap()}
	bs.unfinalisedBlocks.store(&types.Block{Header: *root})
	for i := 1; i <= n; i++ {
		p := 0
		if i > 1 {
			p = vrt.Choice("parent"+string(rune('0'+i)), i)
		}
		dg := types.NewDigest()
		pd, err := types.NewBabeSecondaryPlainPreDigest(0, uint64(t.hdr[p].Number+1)).ToPreRuntimeDigest()
		if err != nil {
			panic(err)
		}
		if err := dg.Add(*pd); err != nil {
			panic(err)
		}
		h := &types.Header{ParentHash: t.hdr[p].Hash(), Number: t.hdr[p].Number + 1, Digest: dg, StateRoot: common.Hash{byte(i)}}
		t.parent = append(t.parent, p)
		t.hdr = append(t.hdr, h)
		vrt.Assert("addblock_ok", bt.AddBlock(h, time.Unix(int64(i), 0)) == nil)
		bs.unfinalisedBlocks.store(&types.Block{Header: *h})
	}
	return t, bs
}

// ZZ_C26_epoch_data: blocks of a symbolic tree announce next-epoch data and configuration for
// epoch 1 (at most one announcement per chain); a lookup for any block returns what was announced
// on that block's own ancestry; with nothing announced there, the epoch data lookup fails and
// the configuration lookup falls back to the genesis configuration - and every lookup terminates.
func ZZ_C26_epoch_data() {
	n := vrt.Param("blocks", 4)
	t, bs := zzBuild26(n)
	s := &EpochState{
		db:             database.NewTable(kv.New(), epochPrefix),
		blockState:     bs,
		nextEpochData:  make(nextEpochMap[types.NextEpochData]),
		nextConfigData: make(nextEpochMap[types.NextConfigDataV1]),
		genesisEpochDescriptor: &GenesisEpochDescriptor{
			EpochData:  &types.EpochDataRaw{Randomness: [32]byte{0xee}},
			ConfigData: &types.ConfigData{C1: 999, C2: 1000},
		},
	}
	annData := make([]bool, n+1)
	annCfg := make([]bool, n+1)
	for i := 1; i <= n; i++ {
		sfx := string(rune('0' + i))
		annData[i] = vrt.Bool("data" + sfx)
		annCfg[i] = vrt.Bool("config" + sfx)
		for a := 1; a < i; a++ { // at most one announcement per chain
			if t.isAncestorOrSelf(a, i) {
				if annData[a] && annData[i] || annCfg[a] && annCfg[i] {
					vrt.Assume(false)
				}
			}
		}
		if annData[i] {
			s.storeBABENextEpochData(1, t.hdr[i].Hash(), types.NextEpochData{Randomness: [32]byte{byte(i)}})
		}
		if annCfg[i] {
			s.storeBABENextConfigData(1, t.hdr[i].Hash(), types.NextConfigDataV1{C1: uint64(i), C2: 7})
		}
	}
	q := 1 + vrt.Choice("query", n)
	wantData, wantCfg := 0, 0
	for a := 1; a <= n; a++ {
		if t.isAncestorOrSelf(a, q) {
			if annData[a] {
				wantData = a
			}
			if annCfg[a] {
				wantCfg = a
			}
		}
	}
	got, err := s.GetEpochDataRaw(1, t.hdr[q])
	vrt.Observe("epoch_data", q, wantData, err != nil)
	if wantData == 0 {
		vrt.Assert("epoch_data_of_other_fork_not_returned", err != nil)
	} else {
		vrt.Assert("epoch_data_from_own_ancestry", err == nil && got != nil && got.Randomness[0] == byte(wantData))
	}
	cfg, err := s.GetConfigData(1, t.hdr[q])
	vrt.Observe("config", q, wantCfg, err != nil)
	if wantCfg == 0 {
		vrt.Ghost("kf_config_fallback", true)
		vrt.Assert("config_falls_back_to_earlier", err == nil && cfg != nil && cfg.C1 == 999)
	} else {
		vrt.Assert("config_from_own_ancestry", err == nil && cfg != nil && cfg.C1 == uint64(wantCfg))
	}
	vrt.Reach("end")
}
