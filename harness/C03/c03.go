package inmemory

import (
	vrt "github.com/ChainSafe/gossamer/internal/zzverif/vrt"
	"github.com/ChainSafe/gossamer/pkg/trie"
)

func zzLessC03(a, b []byte) bool {
	n := len(a)
	if len(b) < n {
		n = len(b)
	}
	res := len(a) < len(b)
	for i := n - 1; i >= 0; i-- {
		res = vrt.Or(a[i] < b[i], vrt.And(a[i] == b[i], res))
	}
	return res
}

func zzKeyC03(name string, maxLen int) []byte {
	n := vrt.Range(name+"_len", 0, maxLen)
	b := vrt.Bytes(name, n)
	for _, x := range b {
		vrt.Assume(vrt.And(x&0x0f < 2, x>>4 < 2))
	}
	return b
}

type zzView struct {
	root []byte
	vals [][]byte
}

func zzObserve(t *InMemoryTrie, keys [][]byte) zzView {
	h := t.MustHash()
	v := zzView{root: append([]byte{}, h[:]...)}
	for _, k := range keys {
		v.vals = append(v.vals, append([]byte(nil), t.Get(k)...))
	}
	return v
}

func zzSameView(a, b zzView) bool {
	ok := vrt.BytesEq(a.root, b.root)
	for i := range a.vals {
		ok = vrt.And(ok, vrt.BytesEq(a.vals[i], b.vals[i]))
	}
	return ok
}

// ZZ_C03_isolation: snapshots of a trie (and a snapshot of a snapshot) are mutated with symbolic
// operations, including raising the state version to V1; whatever is done to one snapshot, the
// root hash and the values seen through the original and through the other snapshot stay the same.
func ZZ_C03_isolation() {
	ml := vrt.Param("maxlen", 2)
	base := NewEmptyTrie()
	var keys [][]byte
	lens := []int{1, 33}
	for i := 0; i < vrt.Param("basekeys", 2); i++ {
		sfx := string(rune('0' + i))
		k := zzKeyC03("k"+sfx, ml)
		if i > 0 {
			vrt.Assume(zzLessC03(keys[i-1], k)) // symmetry reduction: ascending, distinct base keys
		}
		v := vrt.Bytes("v"+sfx, lens[vrt.Choice("vlen"+sfx, len(lens))])
		vrt.Assert("put_ok", base.Put(k, v) == nil)
		keys = append(keys, k)
	}
	// query keys: the base keys and the keys the operations will use
	s1 := base.Snapshot()
	var s2 *InMemoryTrie
	nested := vrt.Bool("nested")
	if nested {
		s2 = s1.Snapshot()
	} else {
		s2 = base.Snapshot()
	}
	opKeys := [][]byte{zzKeyC03("o0", ml)}
	all := append(append([][]byte{}, keys...), opKeys...)
	before := []zzView{zzObserve(base, all), zzObserve(s1, all), zzObserve(s2, all)}
	// which snapshot is modified: a leaf of the snapshot graph (a trie that has itself been
	// snapshotted is not modified afterwards, as in the block-state usage)
	target := s2
	others := []int{0, 1}
	if !nested && vrt.Bool("mutate_s1") {
		target = s1
		others = []int{0, 2}
	}
	for i := 0; i < vrt.Param("ops", 2); i++ {
		sfx := string(rune('0' + i))
		switch vrt.Choice("op"+sfx, 3) {
		case 0:
			v := vrt.Bytes("ov"+sfx, lens[vrt.Choice("ovlen"+sfx, len(lens))])
			if vrt.Bool("same_value" + sfx) {
				// re-put the value a base key already has (exercises in-place flag updates)
				j := vrt.Choice("samekey"+sfx, len(keys))
				v = append([]byte(nil), before[0].vals[j]...)
				vrt.Assert("put_ok", target.Put(keys[j], v) == nil)
			} else {
				vrt.Assert("put_ok", target.Put(opKeys[0], v) == nil)
			}
		case 1:
			vrt.Assert("delete_ok", target.Delete(keys[vrt.Choice("delkey"+sfx, len(keys))]) == nil)
		case 2:
			target.SetVersion(trie.V1)
		}
	}
	_ = target.MustHash()
	views := []*InMemoryTrie{base, s1, s2}
	for _, o := range others {
		vrt.Assert("other_views_unchanged", zzSameView(before[o], zzObserve(views[o], all)))
	}
	vrt.Reach("end")
}

func zzKey1(name string, alpha byte) []byte {
	b := vrt.Bytes(name, 1)
	vrt.Assume(vrt.And(b[0]&0x0f < alpha, b[0]>>4 < alpha))
	return b
}

// ZZ_C03_merge_then_write: a snapshot deletes a key (which may merge a branch with its only
// remaining child) and then writes another key; the original trie must still show exactly its
// own three keys.
func ZZ_C03_merge_then_write() {
	alpha := byte(vrt.Param("alpha", 3))
	base := NewEmptyTrie()
	var keys [][]byte
	for i := 0; i < 3; i++ {
		k := zzKey1("k"+string(rune('0'+i)), alpha)
		if i > 0 {
			vrt.Assume(keys[i-1][0] < k[0])
		}
		vrt.Assert("put_ok", base.Put(k, []byte{byte(i + 1)}) == nil)
		keys = append(keys, k)
	}
	rootBefore := base.MustHash()
	s := base.Snapshot()
	other := base.Snapshot()
	vrt.Assert("delete_ok", s.Delete(keys[vrt.Choice("del", 3)]) == nil)
	w := zzKey1("w", alpha)
	vrt.Assert("put_ok", s.Put(w, []byte{0x77}) == nil)
	if vrt.Bool("second_delete") {
		vrt.Assert("delete_ok", s.Delete(keys[vrt.Choice("del2", 3)]) == nil)
	}
	_ = s.MustHash()
	for _, view := range []*InMemoryTrie{base, other} {
		for i, k := range keys {
			g := view.Get(k)
			vrt.Assert("original_keys_intact", len(g) == 1 && g[0] == byte(i+1))
		}
		isBase := vrt.Or(vrt.BytesEq(w, keys[0]), vrt.Or(vrt.BytesEq(w, keys[1]), vrt.BytesEq(w, keys[2])))
		if !isBase { // forks
			vrt.Assert("foreign_write_invisible", view.Get(w) == nil)
		}
		vrt.Assert("entry_count_unchanged", len(view.Entries()) == 3)
		vrt.Assert("root_unchanged", view.MustHash() == rootBefore)
	}
	vrt.Reach("end")
}
