package state

import (
	"github.com/ChainSafe/gossamer/dot/state/pruner"
	"github.com/ChainSafe/gossamer/internal/database"
	"github.com/ChainSafe/gossamer/internal/zzverif/kv"
	vrt "github.com/ChainSafe/gossamer/internal/zzverif/vrt"
	"github.com/ChainSafe/gossamer/lib/runtime/storage"
	inmemory_trie "github.com/ChainSafe/gossamer/pkg/trie/inmemory"
)

func zzStateKey(name string) []byte {
	b := vrt.Bytes(name, 1)
	vrt.Assume(vrt.And(b[0]&0x0f < 2, b[0]>>4 < 2))
	return b
}

// ZZ_C03_storage_state: a state stored through the storage state, evicted from the in-memory
// cache (as finalisation pruning does) and re-opened by root with TrieState must hand out an
// independent copy: modifying it must not change what is read by that root afterwards.
func ZZ_C03_storage_state() {
	s := &InmemoryStorageState{
		tries:  NewTries(),
		db:     database.NewTable(kv.New(), storagePrefix),
		pruner: &pruner.ArchiveNode{},
	}
	tr := inmemory_trie.NewEmptyTrie()
	k0, k1 := zzStateKey("k0"), zzStateKey("k1")
	vrt.Assume(k0[0] < k1[0])
	v0, v1 := vrt.Bytes("v0", 1), vrt.Bytes("v1", 1)
	vrt.Assert("put_ok", tr.Put(k0, v0) == nil && tr.Put(k1, v1) == nil)
	root := tr.MustHash()
	vrt.Assert("store_ok", s.StoreTrie(storage.NewTrieState(tr), nil) == nil)
	if vrt.Bool("evicted") {
		s.tries.delete(root)
	}
	ts, err := s.TrieState(&root)
	vrt.Assert("open_ok", err == nil && ts != nil)
	if ts == nil {
		return
	}
	w := zzStateKey("w")
	switch vrt.Choice("op", 2) {
	case 0:
		vrt.Assert("put_ok", ts.Put(w, []byte{0x55}) == nil)
	case 1:
		vrt.Assert("delete_ok", ts.Delete(k0) == nil)
	}
	_ = ts.Trie().MustHash()
	// reading by the old root still gives the stored contents
	g0, err := s.GetStorage(&root, k0)
	vrt.Observe("get_k0", len(g0), err != nil)
	vrt.Assert("stored_value_0_intact", vrt.And(err == nil, vrt.BytesEq(g0, v0)))
	g1, err := s.GetStorage(&root, k1)
	vrt.Assert("stored_value_1_intact", vrt.And(err == nil, vrt.BytesEq(g1, v1)))
	again, err := s.TrieState(&root)
	vrt.Assert("reopen_ok", err == nil && again != nil)
	if again != nil {
		vrt.Assert("reopened_root", again.Trie().MustHash() == root)
	}
	vrt.Reach("end")
}
