package grandpa

import (
	"errors"
	"sync"

	"github.com/ChainSafe/gossamer/dot/types"
	"github.com/ChainSafe/gossamer/internal/database"
	vrt "github.com/ChainSafe/gossamer/internal/zzverif/vrt"
	"github.com/ChainSafe/gossamer/lib/blocktree"
	"github.com/ChainSafe/gossamer/lib/common"
	"github.com/ChainSafe/gossamer/lib/crypto/ed25519"
	"github.com/ChainSafe/gossamer/lib/runtime"
	"github.com/ChainSafe/gossamer/pkg/scale"
)

// zzTree21: fixed fork tree  G(0) - A1(1) - A2(2) - A3(3),  A1 - B2(2) - B3(3)
type zzTree21 struct {
	hdr    []*types.Header
	hash   []common.Hash
	parent []int
}

func zzNewTree21() *zzTree21 {
	c := &zzTree21{}
	add := func(parent int, num uint, tag byte) {
		ph := common.Hash{}
		if parent >= 0 {
			ph = c.hash[parent]
		}
		h := types.NewHeader(ph, common.Hash{}, common.Hash{tag}, num, types.NewDigest())
		c.hdr = append(c.hdr, h)
		c.hash = append(c.hash, h.Hash())
		c.parent = append(c.parent, parent)
	}
	add(-1, 0, 0xf0) // 0 G
	add(0, 1, 0xa1)  // 1 A1
	add(1, 2, 0xa2)  // 2 A2
	add(2, 3, 0xa3)  // 3 A3
	add(1, 2, 0xb2)  // 4 B2
	add(4, 3, 0xb3)  // 5 B3
	return c
}

func (c *zzTree21) idx(h common.Hash) int {
	for i, x := range c.hash {
		if x == h {
			return i
		}
	}
	return -1
}

func (c *zzTree21) isAncestor(a, b int) bool { // a is an ancestor of b, or b itself
	for x := b; x >= 0; x = c.parent[x] {
		if x == a {
			return true
		}
	}
	return false
}

func (c *zzTree21) GenesisHash() common.Hash              { return c.hash[0] }
func (c *zzTree21) HasHeader(h common.Hash) (bool, error) { return c.idx(h) >= 0, nil }
func (c *zzTree21) GetHeader(h common.Hash) (*types.Header, error) {
	if i := c.idx(h); i >= 0 {
		return c.hdr[i], nil
	}
	return nil, database.ErrNotFound
}
func (c *zzTree21) GetHeaderByNumber(num uint) (*types.Header, error) {
	if num <= 3 {
		return c.hdr[num], nil // the A chain is the canonical one
	}
	return nil, database.ErrNotFound
}
func (c *zzTree21) IsDescendantOf(parent, child common.Hash) (bool, error) {
	p, ch := c.idx(parent), c.idx(child)
	if p < 0 {
		return false, blocktree.ErrStartNodeNotFound
	}
	if ch < 0 {
		return false, blocktree.ErrEndNodeNotFound
	}
	return c.isAncestor(p, ch), nil
}
func (c *zzTree21) LowestCommonAncestor(a, b common.Hash) (common.Hash, error) {
	x, y := c.idx(a), c.idx(b)
	if x < 0 || y < 0 {
		return common.Hash{}, blocktree.ErrNodeNotFound
	}
	for !c.isAncestor(x, y) {
		x = c.parent[x]
	}
	return c.hash[x], nil
}
func (c *zzTree21) HasFinalisedBlock(round, setID uint64) (bool, error) { return false, nil }
func (c *zzTree21) GetFinalisedHeader(round, setID uint64) (*types.Header, error) {
	return c.hdr[0], nil
}
func (c *zzTree21) GetRoundAndSetID() (uint64, uint64)                              { return 0, 0 }
func (c *zzTree21) GetFinalisedHash(round, setID uint64) (common.Hash, error)       { return c.hash[0], nil }
func (c *zzTree21) SetFinalisedHash(h common.Hash, round, setID uint64) error       { return nil }
func (c *zzTree21) BestBlockHeader() (*types.Header, error)                         { return c.hdr[3], nil }
func (c *zzTree21) GetHighestFinalisedHeader() (*types.Header, error)               { return c.hdr[0], nil }
func (c *zzTree21) GetImportedBlockNotifierChannel() chan *types.Block              { return nil }
func (c *zzTree21) FreeImportedBlockNotifierChannel(ch chan *types.Block)           {}
func (c *zzTree21) GetFinalisedNotifierChannel() chan *types.FinalisationInfo       { return nil }
func (c *zzTree21) FreeFinalisedNotifierChannel(ch chan *types.FinalisationInfo)    {}
func (c *zzTree21) SetJustification(hash common.Hash, data []byte) error            { return nil }
func (c *zzTree21) BestBlockNumber() (uint, error)                                  { return 3, nil }
func (c *zzTree21) GetHighestRoundAndSetID() (uint64, uint64, error)                { return 0, 0, nil }
func (c *zzTree21) BestBlockHash() common.Hash                                      { return c.hash[3] }
func (c *zzTree21) GetRuntime(common.Hash) (runtime.Instance, error)                { return nil, errors.New("zz") }
func (c *zzTree21) GetJustification(common.Hash) ([]byte, error)                    { return nil, errors.New("zz") }

const (
	zzRound21 = uint64(7)
	zzSetID21 = uint64(3)
)

func zzService21(c *zzTree21, n int, head int) *Service {
	voters := make([]Voter, n)
	for i := range voters {
		pb := vrt.Ed25519Pub(i)
		pk, err := ed25519.NewPublicKey(pb[:])
		if err != nil {
			panic(err)
		}
		voters[i] = Voter{Key: *pk, ID: uint64(i)}
	}
	kp, err := ed25519.NewKeypairFromSeed(vrt.Ed25519Seed(9))
	if err != nil {
		panic(err)
	}
	return &Service{
		state:           &State{voters: voters, setID: zzSetID21, round: zzRound21},
		blockState:      c,
		grandpaState:    zzGS21{},
		keypair:         kp,
		prevotes:        new(sync.Map),
		precommits:      new(sync.Map),
		pvEquivocations: make(map[ed25519.PublicKeyBytes][]*SignedVote),
		pcEquivocations: make(map[ed25519.PublicKeyBytes][]*SignedVote),
		tracker:         newTracker(c, nil),
		head:            c.hdr[head],
		preVotedBlock:   make(map[uint64]*Vote),
	}
}

// ZZ_C21_vote_validation: a vote message whose signer, signature validity, target block and
// claimed block number are symbolic is counted (accepted and stored) only if it is well signed
// by an authority, for a known block that descends from the finalised head, with the block's
// real number.
func ZZ_C21_vote_validation() {
	c := zzNewTree21()
	n := 3
	s := zzService21(c, n, 1) // finalised head A1
	signer := vrt.Choice("signer", n+1)
	valid := vrt.Bool("valid")
	blk := vrt.Choice("block", 7) // 6 = a hash that is not a known block
	var hash common.Hash
	realNumber := uint32(77)
	if blk < 6 {
		hash = c.hash[blk]
		realNumber = uint32(c.hdr[blk].Number)
	} else {
		hash = common.Hash{0xde, 0xad}
	}
	number := vrt.U32("number")
	stage := prevote
	if vrt.Bool("precommit") {
		stage = precommit
	}
	msg, err := scale.Marshal(FullVote{Stage: stage, Vote: Vote{Hash: hash, Number: number}, Round: zzRound21, SetID: zzSetID21})
	if err != nil {
		panic(err)
	}
	sig := vrt.Ed25519Sign(signer, msg, valid)
	m := &VoteMessage{Round: zzRound21, SetID: zzSetID21, Message: SignedMessage{
		Stage: stage, BlockHash: hash, Number: number, Signature: sig, AuthorityID: vrt.Ed25519Pub(signer)}}
	v, err := s.validateVoteMessage("", m)
	counted := len(s.getDirectVotes(stage)) > 0
	vrt.Observe("vote", signer, blk, err != nil, counted)
	vrt.Assert("accepted_iff_counted", (err == nil) == counted)
	vrt.Assert("no_equivocation_from_a_single_vote", len(s.pvEquivocations) == 0 && len(s.pcEquivocations) == 0)
	legit := vrt.And(vrt.And(signer < n, valid), vrt.And(blk < 6 && c.isAncestor(1, blk), number == realNumber))
	if counted {
		vrt.Assert("only_valid_votes_counted", legit)
		vrt.Assert("counted_vote_is_the_vote", v != nil && v.Hash == hash)
	} else {
		vrt.Assert("valid_vote_is_counted", vrt.Not(legit))
	}
	vrt.Reach("end")
}

// ZZ_C21_prevoted_block: with symbolic prevotes (one optional vote per authority, plus an optional
// equivocator) the pre-voted block, and so the precommit target, is the highest block with more
// than two thirds of the prevotes counting descendants and equivocators.
func ZZ_C21_prevoted_block() {
	c := zzNewTree21()
	n := vrt.Range("n_auth", 3, vrt.Param("maxauth", 4))
	s := zzService21(c, n, 0)
	votes := make([]int, n) // block index or -1
	equiv := 0
	for a := 0; a < n; a++ {
		sfx := string(rune('0' + a))
		votes[a] = vrt.Choice("vote"+sfx, 8) - 2 // -2: equivocator, -1: no vote, 0..5: block
		pb := vrt.Ed25519Pub(a)
		switch {
		case votes[a] == -2:
			s.pvEquivocations[ed25519.PublicKeyBytes(pb)] = []*SignedVote{}
			equiv++
		case votes[a] >= 0:
			b := votes[a]
			s.prevotes.Store(ed25519.PublicKeyBytes(pb), &SignedVote{Vote: Vote{Hash: c.hash[b], Number: uint32(c.hdr[b].Number)}, AuthorityID: pb})
		}
	}
	vrt.Assume(equiv <= 1)
	total := func(b int) int {
		t := equiv
		for _, v := range votes {
			if v >= 0 && c.isAncestor(b, v) {
				t++
			}
		}
		return t
	}
	// reference: the highest block with more than 2n/3 votes
	best := -1
	tie := false
	for b := 0; b < 6; b++ {
		if 3*total(b) > 2*n {
			if best < 0 || c.hdr[b].Number > c.hdr[best].Number {
				best, tie = b, false
			} else if c.hdr[b].Number == c.hdr[best].Number {
				tie = true
			}
		}
	}
	if best < 0 || tie {
		vrt.Assume(false) // no supermajority block (the fallback is not part of the property), or an ambiguous one
	}
	got, err := s.getPreVotedBlock()
	vrt.Observe("prevoted", best, err != nil)
	vrt.Assert("prevoted_ok", err == nil)
	vrt.Assert("prevoted_block_is_highest_supermajority_block", got.Hash == c.hash[best] && got.Number == uint32(c.hdr[best].Number))
	vrt.Reach("end")
}

// ZZ_C21_second_vote: authority 0 has a valid prevote for A2 on record; a second vote message
// from a symbolic signer with symbolic validity, target and number arrives. If it is rejected for
// any reason other than being a genuine (valid) equivocation, what is counted stays as it was.
func ZZ_C21_second_vote() {
	c := zzNewTree21()
	n := 3
	s := zzService21(c, n, 1)
	first := Vote{Hash: c.hash[2], Number: 2}
	msg0, err := scale.Marshal(FullVote{Stage: prevote, Vote: first, Round: zzRound21, SetID: zzSetID21})
	if err != nil {
		panic(err)
	}
	m0 := &VoteMessage{Round: zzRound21, SetID: zzSetID21, Message: SignedMessage{
		Stage: prevote, BlockHash: first.Hash, Number: first.Number, Signature: vrt.Ed25519Sign(0, msg0, true), AuthorityID: vrt.Ed25519Pub(0)}}
	_, err = s.validateVoteMessage("", m0)
	vrt.Assert("first_vote_accepted", err == nil)
	signer := vrt.Choice("signer", n+1)
	valid := vrt.Bool("valid")
	blk := vrt.Choice("block", 7)
	var hash common.Hash
	realNumber := uint32(77)
	if blk < 6 {
		hash = c.hash[blk]
		realNumber = uint32(c.hdr[blk].Number)
	} else {
		hash = common.Hash{0xde, 0xad}
	}
	number := vrt.U32("number")
	msg, err := scale.Marshal(FullVote{Stage: prevote, Vote: Vote{Hash: hash, Number: number}, Round: zzRound21, SetID: zzSetID21})
	if err != nil {
		panic(err)
	}
	m := &VoteMessage{Round: zzRound21, SetID: zzSetID21, Message: SignedMessage{
		Stage: prevote, BlockHash: hash, Number: number, Signature: vrt.Ed25519Sign(signer, msg, valid), AuthorityID: vrt.Ed25519Pub(signer)}}
	_, err = s.validateVoteMessage("", m)
	legit := vrt.And(vrt.And(signer < n, valid), vrt.And(blk < 6 && c.isAncestor(1, blk), number == realNumber))
	total2, terr := s.getTotalVotesForBlock(c.hash[2], prevote)
	vrt.Observe("second", signer, blk, err != nil, len(s.pvEquivocations), total2)
	vrt.Assert("total_ok", terr == nil)
	if !legit { // forks on the symbolic number and validity
		// an invalid message changes nothing: the first vote is still the only thing counted
		vrt.Assert("invalid_second_vote_rejected", err != nil)
		vrt.Assert("invalid_second_vote_records_no_equivocation", len(s.pvEquivocations) == 0)
		vrt.Assert("invalid_second_vote_keeps_first_vote", total2 == 1 && len(s.getDirectVotes(prevote)) == 1)
	}
	vrt.Reach("end")
}

// zzGS21: grandpa state stand-in (only consulted when an equivocation is reported).
type zzGS21 struct{}

func (zzGS21) GetCurrentSetID() (uint64, error)                          { return zzSetID21, nil }
func (zzGS21) GetAuthorities(uint64) ([]types.GrandpaVoter, error)       { return nil, errors.New("zz") }
func (zzGS21) GetSetIDByBlockNumber(uint) (uint64, error)                { return zzSetID21, nil }
func (zzGS21) SetLatestRound(uint64) error                               { return nil }
func (zzGS21) GetLatestRound() (uint64, error)                           { return zzRound21, nil }
func (zzGS21) SetPrevotes(uint64, uint64, []SignedVote) error            { return nil }
func (zzGS21) SetPrecommits(uint64, uint64, []SignedVote) error          { return nil }
func (zzGS21) GetPrevotes(uint64, uint64) ([]SignedVote, error)          { return nil, nil }
func (zzGS21) GetPrecommits(uint64, uint64) ([]SignedVote, error)        { return nil, nil }
func (zzGS21) NextGrandpaAuthorityChange(common.Hash, uint) (uint, error) { return 0, errors.New("zz") }
func (zzGS21) GetAuthoritiesChangesFromBlock(uint) ([]uint, error)       { return nil, nil }
