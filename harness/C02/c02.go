package inmemory

import (
	vrt "github.com/ChainSafe/gossamer/internal/zzverif/vrt"
)

// ---- reference: association list over byte strings

type zzKV struct {
	k, v []byte
}

// zzKey: a key of 0..maxLen symbolic bytes whose nibbles range over the alphabet [0, alpha)
// (alpha is a stated bound; 3 symbols give shared prefixes, >=2 children and zero low nibbles).
func zzKey(name string, maxLen int) []byte {
	n := vrt.Range(name+"_len", 0, maxLen)
	b := vrt.Bytes(name, n)
	a := byte(vrt.Param("alpha", 3))
	for _, x := range b {
		vrt.Assume(vrt.And(x&0x0f < a, x>>4 < a))
	}
	return b
}

// zzLess: a < b lexicographically (no forking: returns a symbolic bool)
func zzLess(a, b []byte) bool {
	n := len(a)
	if len(b) < n {
		n = len(b)
	}
	res := len(a) < len(b)
	for i := n - 1; i >= 0; i-- {
		res = vrt.Or(a[i] < b[i], vrt.And(a[i] == b[i], res))
	}
	return res
}

func zzHasPrefix(k, p []byte) bool {
	if len(p) > len(k) {
		return false
	}
	return vrt.BytesEq(k[:len(p)], p)
}

type zzRef struct{ kvs []zzKV }

// zzZeroLowNibble: non-empty prefix whose last byte has a zero low nibble (region of known finding T3).
func zzZeroLowNibble(p []byte) bool {
	if len(p) == 0 {
		return false
	}
	return p[len(p)-1]&0x0f == 0
}

// nestedMatch: two stored keys with prefix p, one a strict prefix of the other (region of known finding L1).
func (r *zzRef) nestedMatch(p []byte) bool {
	res := false
	for i := range r.kvs {
		for j := range r.kvs {
			if i != j && len(r.kvs[i].k) < len(r.kvs[j].k) {
				res = vrt.Or(res, vrt.And(zzHasPrefix(r.kvs[i].k, p), zzHasPrefix(r.kvs[j].k, r.kvs[i].k)))
			}
		}
	}
	return res
}

// strictPrefixOfSome: k is a strict byte-prefix of some stored key and is not stored itself
// (non-forking; used only to name the region of known finding T1/T2).
func (r *zzRef) strictPrefixOfSome(k []byte) bool {
	some, present := false, false
	for _, kv := range r.kvs {
		if len(kv.k) > len(k) {
			some = vrt.Or(some, zzHasPrefix(kv.k, k))
		}
		present = vrt.Or(present, vrt.BytesEq(kv.k, k))
	}
	return vrt.And(some, vrt.Not(present))
}

func (r *zzRef) find(k []byte) int {
	for i := range r.kvs {
		if vrt.BytesEq(r.kvs[i].k, k) { // forks on symbolic equality: map shape becomes concrete
			return i
		}
	}
	return -1
}

func (r *zzRef) put(k, v []byte) {
	if i := r.find(k); i >= 0 {
		r.kvs[i].v = v
		return
	}
	r.kvs = append(r.kvs, zzKV{k, v})
}

func (r *zzRef) del(k []byte) {
	if i := r.find(k); i >= 0 {
		r.kvs = append(r.kvs[:i:i], r.kvs[i+1:]...)
	}
}

func (r *zzRef) get(k []byte) []byte {
	if i := r.find(k); i >= 0 {
		return r.kvs[i].v
	}
	return nil
}

// build a trie and the reference from nk symbolic keys (distinct by assumption is NOT required:
// equal keys overwrite).
func zzBuild(nk, maxLen int) (*InMemoryTrie, *zzRef) {
	t := NewEmptyTrie()
	ref := &zzRef{}
	var prev []byte
	for i := 0; i < nk; i++ {
		k := zzKey("k"+string(rune('0'+i)), maxLen)
		if i > 0 && vrt.Param("sorted", 0) == 1 {
			// symmetry reduction (stated bound): keys are inserted in strictly ascending order
			vrt.Assume(zzLess(prev, k))
		}
		prev = k
		v := []byte{byte(i + 1)}
		if vrt.Param("emptyval", 0) == 1 && vrt.Bool("v"+string(rune('0'+i))+"_empty") {
			v = []byte{} // present but empty value
		}
		if err := t.Put(k, v); err != nil {
			vrt.Assert("put_ok", false)
		}
		ref.put(k, v)
	}
	return t, ref
}

// ZZ_C02_get_delete: after puts and one delete, Get of an arbitrary key equals the reference.
func ZZ_C02_get_delete() {
	nk := vrt.Param("nkeys", 3)
	ml := vrt.Param("maxlen", 2)
	t, ref := zzBuild(nk, ml)
	dpref := false
	if vrt.Bool("do_delete") {
		d := zzKey("d", ml)
		dpref = ref.strictPrefixOfSome(d)
		if err := t.Delete(d); err != nil {
			vrt.Assert("delete_ok", false)
		}
		ref.del(d)
	}
	vrt.Ghost("kf_d_strict_prefix", dpref)
	q := zzKey("q", ml)
	vrt.Ghost("kf_q_strict_prefix", ref.strictPrefixOfSome(q))
	got := t.Get(q)
	want := ref.get(q)
	vrt.Assert("get_matches_map", vrt.And((got == nil) == (want == nil), vrt.BytesEq(got, want)))
	// every key of the reference is still there with its value
	for _, kv := range ref.kvs {
		g := t.Get(kv.k)
		vrt.Assert("present_keys_readable", vrt.And(g != nil, vrt.BytesEq(g, kv.v)))
	}
	vrt.Reach("end")
}

// ZZ_C02_prefix_listing: GetKeysWithPrefix returns exactly the keys with that byte-wise prefix.
func ZZ_C02_prefix_listing() {
	nk := vrt.Param("nkeys", 3)
	ml := vrt.Param("maxlen", 2)
	t, ref := zzBuild(nk, ml)
	p := zzKey("p", ml)
	vrt.Ghost("kf_p_zero_low", zzZeroLowNibble(p))
	got := t.GetKeysWithPrefix(p)
	// every returned key is in the map and has the prefix; count matches
	nwant := 0
	for _, kv := range ref.kvs {
		if zzHasPrefix(kv.k, p) { // forks
			nwant++
			found := false
			for _, g := range got {
				found = vrt.Or(found, vrt.BytesEq(g, kv.k))
			}
			vrt.Assert("prefix_listing_complete", found)
		}
	}
	vrt.Assert("prefix_listing_count", len(got) == nwant)
	for _, g := range got {
		vrt.Assert("prefix_listing_sound", zzHasPrefix(g, p))
	}
	vrt.Reach("end")
}

// ZZ_C02_next_key: NextKey returns the smallest strictly greater key.
func ZZ_C02_next_key() {
	nk := vrt.Param("nkeys", 3)
	ml := vrt.Param("maxlen", 2)
	t, ref := zzBuild(nk, ml)
	q := zzKey("q", ml)
	got := t.NextKey(q)
	// reference: minimum over keys > q
	var best []byte
	have := false
	for _, kv := range ref.kvs {
		if zzLess(q, kv.k) { // forks
			if !have || zzLess(kv.k, best) {
				best = kv.k
				have = true
			}
		}
	}
	vrt.Assert("next_key", vrt.And((got != nil) == have, vrt.Or(!have, vrt.BytesEq(got, best))))
	vrt.Reach("end")
}

// ZZ_C02_clear_prefix: ClearPrefix removes exactly the keys with the prefix.
func ZZ_C02_clear_prefix() {
	nk := vrt.Param("nkeys", 3)
	ml := vrt.Param("maxlen", 2)
	t, ref := zzBuild(nk, ml)
	p := zzKey("p", ml)
	vrt.Ghost("kf_p_zero_low", zzZeroLowNibble(p))
	if err := t.ClearPrefix(p); err != nil {
		vrt.Assert("clear_ok", false)
	}
	for _, kv := range ref.kvs {
		g := t.Get(kv.k)
		if zzHasPrefix(kv.k, p) {
			vrt.Assert("clear_prefix_removes", g == nil)
		} else {
			vrt.Assert("clear_prefix_keeps", vrt.And(g != nil, vrt.BytesEq(g, kv.v)))
		}
	}
	vrt.Reach("end")
}

// ZZ_C02_clear_prefix_limit: removes the smallest matching keys first, reports count and all-deleted.
func ZZ_C02_clear_prefix_limit() {
	nk := vrt.Param("nkeys", 3)
	ml := vrt.Param("maxlen", 2)
	t, ref := zzBuild(nk, ml)
	p := zzKey("p", ml)
	limit := uint32(vrt.Range("limit", 0, nk+1))
	vrt.Ghost("kf_p_zero_low", zzZeroLowNibble(p))
	vrt.Ghost("kf_limit_zero", limit == 0)
	vrt.Ghost("kf_nested_match", ref.nestedMatch(p))
	deleted, allDeleted, err := t.ClearPrefixLimit(p, limit)
	vrt.Assert("clearlimit_ok", err == nil)
	// reference: matching keys sorted ascending; remove first min(limit, n)
	var match []zzKV
	for _, kv := range ref.kvs {
		if zzHasPrefix(kv.k, p) {
			match = append(match, kv)
		}
	}
	// rank of each matching key = number of matching keys smaller than it
	n := uint32(len(match))
	wantDel := limit
	if n < limit {
		wantDel = n
	}
	vrt.Assert("clearlimit_count", deleted == wantDel)
	vrt.Assert("clearlimit_alldeleted", allDeleted == (n <= limit))
	for _, kv := range match {
		rank := uint32(0)
		for _, o := range match {
			if zzLess(o.k, kv.k) { // forks
				rank++
			}
		}
		g := t.Get(kv.k)
		if rank < limit {
			vrt.Assert("clearlimit_removes_smallest", g == nil)
		} else {
			vrt.Assert("clearlimit_keeps_rest", vrt.And(g != nil, vrt.BytesEq(g, kv.v)))
		}
	}
	for _, kv := range ref.kvs {
		if !zzHasPrefix(kv.k, p) {
			g := t.Get(kv.k)
			vrt.Assert("clearlimit_keeps_others", vrt.And(g != nil, vrt.BytesEq(g, kv.v)))
		}
	}
	vrt.Reach("end")
}

// ZZ_C02_entries: Entries lists exactly the map.
func ZZ_C02_entries() {
	nk := vrt.Param("nkeys", 3)
	ml := vrt.Param("maxlen", 2)
	t, ref := zzBuild(nk, ml)
	dpref := false
	if vrt.Bool("do_delete") {
		d := zzKey("d", ml)
		dpref = ref.strictPrefixOfSome(d)
		_ = t.Delete(d)
		ref.del(d)
	}
	vrt.Ghost("kf_d_strict_prefix", dpref)
	ent := t.Entries()
	vrt.Assert("entries_count", len(ent) == len(ref.kvs))
	for _, kv := range ref.kvs {
		v, ok := ent[string(kv.k)]
		vrt.Assert("entries_has", vrt.And(ok, vrt.BytesEq(v, kv.v)))
	}
	vrt.Reach("end")
}
