package lrucache

import (
	vrt "github.com/ChainSafe/gossamer/internal/zzverif/vrt"
)

type zzLRUEntry struct {
	k uint8
	v uint16
}

// ZZ_C35_sequential: every sequence of Get/Put with symbolic keys and values on a cache of
// symbolic capacity behaves like a capacity-bounded map with a recency list (front = most
// recent): a get refreshes recency, a put into a full cache evicts the least recently used entry,
// a put of an existing key updates it without evicting.
func ZZ_C35_sequential() {
	capacity := uint(vrt.Range("capacity", 1, vrt.Param("maxcap", 3)))
	c := NewLRUCache[uint8, uint16](capacity)
	var ref []zzLRUEntry // index 0 = most recently used
	nops := vrt.Param("ops", 5)
	for i := 0; i < nops; i++ {
		sfx := string(rune('0' + i))
		k := vrt.U8("key" + sfx)
		pos := -1
		for j := range ref {
			if ref[j].k == k { // forks on symbolic key equality
				pos = j
				break
			}
		}
		if vrt.Bool("isput" + sfx) {
			v := vrt.U16("val" + sfx)
			c.Put(k, v)
			if pos >= 0 {
				ref = append(ref[:pos:pos], ref[pos+1:]...)
			} else if uint(len(ref)) >= capacity {
				ref = ref[:len(ref)-1]
			}
			ref = append([]zzLRUEntry{{k, v}}, ref...)
		} else {
			got := c.Get(k)
			if pos >= 0 {
				vrt.Assert("get_returns_value", got == ref[pos].v)
				e := ref[pos]
				ref = append(ref[:pos:pos], ref[pos+1:]...)
				ref = append([]zzLRUEntry{e}, ref...)
			} else {
				vrt.Assert("get_absent_is_zero", got == 0)
			}
		}
		vrt.Assert("size_matches", len(c.cache) == len(ref))
		vrt.Assert("size_within_capacity", uint(len(c.cache)) <= capacity)
		// recency order of the real list equals the reference
		j := 0
		for el := c.lruList.Front(); el != nil; el = el.Next() {
			en := el.Value.(*Entry[uint8, uint16])
			if j < len(ref) {
				vrt.Assert("recency_order", vrt.And(en.key == ref[j].k, en.value == ref[j].v))
			}
			j++
		}
		vrt.Assert("list_length", j == len(ref))
	}
	vrt.Reach("end")
}
