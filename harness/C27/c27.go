package state

import (
	"github.com/ChainSafe/gossamer/dot/types"
	"github.com/ChainSafe/gossamer/internal/database"
	"github.com/ChainSafe/gossamer/internal/zzverif/kv"
	vrt "github.com/ChainSafe/gossamer/internal/zzverif/vrt"
	"github.com/ChainSafe/gossamer/lib/common"
)

type zzRec struct {
	slot   uint64
	signer int
	hdr    int
}

func zzHeaders() []*types.Header {
	var hs []*types.Header
	for i := 0; i < 3; i++ {
		hs = append(hs, types.NewHeader(common.Hash{byte(i + 1)}, common.Hash{}, common.Hash{}, uint(i+1), types.NewDigest()))
	}
	return hs
}

func zzSatSub(a, b uint64) uint64 {
	if a < b {
		return 0
	}
	return a - b
}

// ZZ_C27_window: sequences of checks with fully symbolic 64-bit slots; the history is
// constrained so that the pruning pass (a >=1000-iteration loop) is not entered.
func ZZ_C27_window() {
	s := &SlotState{db: database.NewTable(kv.New(), slotTablePrefix)}
	hs := zzHeaders()
	signers := []types.AuthorityID{{1}, {2}}
	var recs []zzRec
	haveFirst := false
	var firstSaved uint64
	n := vrt.Param("checks", 3)
	for i := 0; i < n; i++ {
		sfx := string(rune('0' + i))
		slotNow, slot := vrt.U64("now"+sfx), vrt.U64("slot"+sfx)
		who := vrt.Choice("signer"+sfx, 2)
		hi := vrt.Choice("hdr"+sfx, 3)
		fs := slot
		if haveFirst {
			fs = firstSaved
		}
		// stay out of the pruning loop (covered by ZZ_C27_prune with concrete slot numbers)
		vrt.Assume(vrt.Or(slotNow < fs, slotNow-fs < pruningBound))
		proof, err := s.CheckEquivocation(slotNow, slot, hs[hi], signers[who])
		vrt.Assert("no_error", err == nil)
		inWindow := vrt.And(zzSatSub(slotNow, slot) <= maxSlotCapacity, slotNow >= fs)
		// reference: first record of (slot, signer)
		prev := -1
		for j, r := range recs {
			if r.signer == who && r.slot == slot { // forks on symbolic slot equality
				prev = j
				break
			}
		}
		if !inWindow { // forks
			vrt.Assert("outside_window_no_proof", proof == nil)
			continue
		}
		if prev >= 0 && recs[prev].hdr != hi {
			vrt.Assert("equivocation_reported", proof != nil)
			if proof != nil {
				ok := vrt.And(proof.Slot == slot, proof.Offender == signers[who])
				ok = vrt.And(ok, proof.FirstHeader.Hash() == hs[recs[prev].hdr].Hash())
				ok = vrt.And(ok, proof.SecondHeader.Hash() == hs[hi].Hash())
				vrt.Assert("proof_carries_both_headers", ok)
			}
		} else {
			vrt.Assert("no_false_proof", proof == nil)
			if prev < 0 {
				recs = append(recs, zzRec{slot, who, hi})
				if !haveFirst {
					haveFirst, firstSaved = true, slot
				}
			}
		}
	}
	vrt.Reach("end")
}

// ZZ_C27_prune: a four-check scenario that enters the pruning pass, with the slot numbers
// placed at symbolic offsets (0..2) around the 1000- and 2000-slot boundaries:
//   check0 records (slot=5) ; check1 records slot 5+999+e1 ; check2 runs at now=5+1999+e2
//   (prunes when the retained range reached 2000) ; check3 re-checks check1's slot at now2
//   with another header.
func ZZ_C27_prune() {
	vrt.StepLimit(80_000_000)
	s := &SlotState{db: database.NewTable(kv.New(), slotTablePrefix)}
	hs := zzHeaders()
	signers := []types.AuthorityID{{1}, {2}}
	const base = uint64(5)
	e1, e2 := vrt.U64("e1"), vrt.U64("e2")
	vrt.Assume(vrt.And(e1 <= 2, e2 <= 2))
	type chk struct {
		now, slot   uint64
		signer, hdr int
	}
	s1 := base + 999 + e1
	n2 := base + 1999 + e2
	w1 := vrt.Choice("signer1", 2)
	w3 := vrt.Choice("signer3", 2)
	checks := []chk{
		{base, base, 0, 0},
		{s1, s1, w1, 0},
		{n2, n2, 1, 0},
		{n2, s1, w3, 1},
	}
	type rec struct {
		slot        uint64
		signer, hdr int
	}
	var recs []rec
	haveFirst := false
	var firstSaved uint64
	for _, c := range checks {
		fs := c.slot
		if haveFirst {
			fs = firstSaved
		}
		proof, err := s.CheckEquivocation(c.now, c.slot, hs[c.hdr], signers[c.signer])
		vrt.Assert("no_error", err == nil)
		if zzSatSub(c.now, c.slot) > maxSlotCapacity || c.now < fs { // forks on the symbolic offsets
			vrt.Assert("outside_window_no_proof", proof == nil)
			continue
		}
		prev := -1
		for j, r := range recs {
			if r.signer == c.signer && r.slot == c.slot {
				prev = j
				break
			}
		}
		if prev >= 0 && recs[prev].hdr != c.hdr {
			vrt.Assert("equivocation_reported", proof != nil)
			if proof != nil {
				ok := vrt.And(proof.Slot == c.slot, proof.Offender == signers[c.signer])
				ok = vrt.And(ok, proof.FirstHeader.Hash() == hs[recs[prev].hdr].Hash())
				ok = vrt.And(ok, proof.SecondHeader.Hash() == hs[c.hdr].Hash())
				vrt.Assert("proof_carries_both_headers", ok)
			}
			continue
		}
		vrt.Assert("no_false_proof", proof == nil)
		if prev >= 0 {
			continue
		}
		if !haveFirst {
			haveFirst, firstSaved = true, c.slot
		}
		if c.now-firstSaved >= pruningBound { // forks
			newFirst := zzSatSub(c.now, maxSlotCapacity)
			var kept []rec
			for _, r := range recs {
				if r.slot >= newFirst { // forks
					kept = append(kept, r)
				}
			}
			recs = kept
			firstSaved = newFirst
		}
		recs = append(recs, rec{c.slot, c.signer, c.hdr})
	}
	vrt.Reach("end")
}

// ZZ_C27_same_slot: several checks of ONE symbolic slot (several signers/headers per slot,
// re-checks of identical headers): proofs exactly for a different header of the same signer.
func ZZ_C27_same_slot() {
	s := &SlotState{db: database.NewTable(kv.New(), slotTablePrefix)}
	hs := zzHeaders()
	signers := []types.AuthorityID{{1}, {2}}
	slot := vrt.U64("slot")
	now := vrt.U64("now")
	vrt.Assume(vrt.And(now >= slot, now-slot <= maxSlotCapacity))
	first := [2]int{-1, -1}
	n := vrt.Param("checks", 4)
	for i := 0; i < n; i++ {
		sfx := string(rune('0' + i))
		who := vrt.Choice("signer"+sfx, 2)
		hi := vrt.Choice("hdr"+sfx, 3)
		proof, err := s.CheckEquivocation(now, slot, hs[hi], signers[who])
		vrt.Assert("no_error", err == nil)
		if first[who] >= 0 && first[who] != hi {
			vrt.Assert("equivocation_reported", proof != nil)
			if proof != nil {
				ok := vrt.And(proof.Slot == slot, proof.Offender == signers[who])
				ok = vrt.And(ok, proof.FirstHeader.Hash() == hs[first[who]].Hash())
				ok = vrt.And(ok, proof.SecondHeader.Hash() == hs[hi].Hash())
				vrt.Assert("proof_carries_both_headers", ok)
			}
		} else {
			vrt.Assert("no_false_proof", proof == nil)
			if first[who] < 0 {
				first[who] = hi
			}
		}
	}
	vrt.Reach("end")
}
