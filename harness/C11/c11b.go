package scale

import (
	"math/big"

	vrt "github.com/ChainSafe/gossamer/internal/zzverif/vrt"
)

// zzCompactBytes: canonical compact encoding of the unsigned integer whose big-endian
// bytes (no leading zero) are be.
func zzCompactBE(be []byte) []byte {
	if len(be) <= 8 {
		var x uint64
		for _, b := range be {
			x = x<<8 | uint64(b)
		}
		return zzCompact(x)
	}
	out := []byte{byte(len(be)-4)<<2 | 3}
	for i := len(be) - 1; i >= 0; i-- {
		out = append(out, be[i])
	}
	return out
}

// ZZ_C11_bigint: *big.Int of 0..9 significant bytes (top byte non-zero) encodes canonically
// and round-trips.
func ZZ_C11_bigint() {
	n := vrt.Range("blen", 0, vrt.Param("bigbytes", 9))
	be := vrt.Bytes("b", n)
	if n > 0 {
		vrt.Assume(be[0] != 0)
	}
	v := new(big.Int).SetBytes(be)
	enc, err := Marshal(v)
	vrt.Assert("marshal_ok", err == nil)
	vrt.Assert("canonical", vrt.BytesEq(enc, zzCompactBE(be)))
	var back *big.Int
	err = Unmarshal(enc, &back)
	vrt.Assert("decode_ok", vrt.And(err == nil, back != nil))
	if back != nil {
		vrt.Assert("roundtrip_sign", back.Sign() >= 0)
		vrt.Assert("roundtrip", vrt.BytesEq(back.Bytes(), be))
	}
	vrt.Reach("end")
}

type zzElem struct {
	ID   uint8
	Note *uint16
}

// ZZ_C11_collections: slices of options, slices of structs with options, arrays, strings, maps.
func ZZ_C11_collections() {
	switch vrt.Choice("shape", 5) {
	case 0: // []*uint32
		n := vrt.Range("n", 0, 3)
		in := make([]*uint32, n)
		var want []byte
		want = append(want, zzCompact(uint64(n))...)
		for i := range in {
			x := vrt.U32("x" + string(rune('0'+i)))
			if vrt.Bool("some" + string(rune('0'+i))) {
				xc := x
				in[i] = &xc
				want = append(want, 1)
				want = append(want, zzLE(uint64(x), 4)...)
			} else {
				want = append(want, 0)
			}
		}
		enc, err := Marshal(in)
		vrt.Assert("optslice_marshal", vrt.And(err == nil, vrt.BytesEq(enc, want)))
		var back []*uint32
		err = Unmarshal(enc, &back)
		vrt.Assert("optslice_decode_ok", vrt.And(err == nil, len(back) == n))
		if len(back) == n {
			for i := range in {
				vrt.Assert("optslice_presence", (back[i] != nil) == (in[i] != nil))
				if back[i] != nil && in[i] != nil {
					vrt.Assert("optslice_value", *back[i] == *in[i])
				}
			}
			// decoded options must not alias one another
			for i := 0; i < n; i++ {
				for j := i + 1; j < n; j++ {
					if back[i] != nil && back[j] != nil {
						vrt.Assert("optslice_no_alias", back[i] != back[j])
					}
				}
			}
		}
	case 1: // []struct with option
		n := vrt.Range("n", 0, 2)
		in := make([]zzElem, n)
		want := zzCompact(uint64(n))
		for i := range in {
			in[i].ID = vrt.U8("id" + string(rune('0'+i)))
			want = append(want, in[i].ID)
			if vrt.Bool("has" + string(rune('0'+i))) {
				nv := vrt.U16("note" + string(rune('0'+i)))
				in[i].Note = &nv
				want = append(want, 1)
				want = append(want, zzLE(uint64(nv), 2)...)
			} else {
				want = append(want, 0)
			}
		}
		enc, err := Marshal(in)
		vrt.Assert("structslice_marshal", vrt.And(err == nil, vrt.BytesEq(enc, want)))
		var back []zzElem
		err = Unmarshal(enc, &back)
		vrt.Assert("structslice_decode_ok", vrt.And(err == nil, len(back) == n))
		if len(back) == n {
			for i := range in {
				ok := back[i].ID == in[i].ID
				ok = vrt.And(ok, (back[i].Note != nil) == (in[i].Note != nil))
				if back[i].Note != nil && in[i].Note != nil {
					ok = vrt.And(ok, *back[i].Note == *in[i].Note)
				}
				vrt.Assert("structslice_roundtrip", ok)
			}
		}
	case 2: // [2]uint16 and []uint16
		a := [2]uint16{vrt.U16("a0"), vrt.U16("a1")}
		enc, err := Marshal(a)
		want := append(zzLE(uint64(a[0]), 2), zzLE(uint64(a[1]), 2)...)
		vrt.Assert("array_marshal", vrt.And(err == nil, vrt.BytesEq(enc, want)))
		var back [2]uint16
		err = Unmarshal(enc, &back)
		vrt.Assert("array_roundtrip", vrt.And(err == nil, vrt.And(back[0] == a[0], back[1] == a[1])))
		s := []uint16{a[0], a[1]}
		enc, err = Marshal(s)
		vrt.Assert("slice_marshal", vrt.And(err == nil, vrt.BytesEq(enc, append([]byte{8}, want...))))
		var sb []uint16
		err = Unmarshal(enc, &sb)
		vrt.Assert("slice_roundtrip", vrt.And(err == nil, vrt.And(len(sb) == 2, vrt.And(sb[0] == a[0], sb[1] == a[1]))))
	case 3: // string and bool
		n := vrt.Range("n", 0, 3)
		b := vrt.Bytes("s", n)
		str := string(b)
		enc, err := Marshal(str)
		vrt.Assert("string_marshal", vrt.And(err == nil, vrt.BytesEq(enc, append(zzCompact(uint64(n)), b...))))
		var back string
		err = Unmarshal(enc, &back)
		vrt.Assert("string_roundtrip", vrt.And(err == nil, back == str))
		f := vrt.Bool("flag")
		enc, err = Marshal(f)
		wantb := byte(0)
		if f {
			wantb = 1
		}
		vrt.Assert("bool_marshal", vrt.And(err == nil, vrt.And(len(enc) == 1, enc[0] == wantb)))
		var fb bool
		err = Unmarshal(enc, &fb)
		vrt.Assert("bool_roundtrip", vrt.And(err == nil, fb == f))
	case 4: // fixed width ints
		u64, i32, i8 := vrt.U64("u64"), vrt.I32("i32"), vrt.I8("i8")
		enc, err := Marshal(u64)
		vrt.Assert("u64_marshal", vrt.And(err == nil, vrt.BytesEq(enc, zzLE(u64, 8))))
		var bu uint64
		err = Unmarshal(enc, &bu)
		vrt.Assert("u64_roundtrip", vrt.And(err == nil, bu == u64))
		enc, err = Marshal(i32)
		vrt.Assert("i32_marshal", vrt.And(err == nil, vrt.BytesEq(enc, zzLE(uint64(uint32(i32)), 4))))
		var bi int32
		err = Unmarshal(enc, &bi)
		vrt.Assert("i32_roundtrip", vrt.And(err == nil, bi == i32))
		enc, err = Marshal(i8)
		vrt.Assert("i8_marshal", vrt.And(err == nil, vrt.And(len(enc) == 1, enc[0] == byte(i8))))
		var b8 int8
		err = Unmarshal(enc, &b8)
		vrt.Assert("i8_roundtrip", vrt.And(err == nil, b8 == i8))
	}
	vrt.Reach("end")
}
