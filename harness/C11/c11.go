package scale

import (
	vrt "github.com/ChainSafe/gossamer/internal/zzverif/vrt"
)

// ---- reference canonical SCALE encoders (plain byte appends, no reflection)

func zzLE(x uint64, n int) []byte {
	b := make([]byte, n)
	for i := 0; i < n; i++ {
		b[i] = byte(x >> (8 * uint(i)))
	}
	return b
}

// zzCompact is the canonical compact encoding of x.
func zzCompact(x uint64) []byte {
	switch {
	case x < 1<<6:
		return []byte{byte(x) << 2}
	case x < 1<<14:
		return zzLE(x<<2|1, 2)
	case x < 1<<30:
		return zzLE(x<<2|2, 4)
	}
	n := 4
	for n < 8 && x>>(8*uint(n)) != 0 {
		n++
	}
	return append([]byte{byte(n-4)<<2 | 3}, zzLE(x, n)...)
}

// ZZ_C11_compact_uint: Marshal(uint) is canonical over the full 64-bit range and round-trips.
func ZZ_C11_compact_uint() {
	x := vrt.Uint("x")
	enc, err := Marshal(x)
	vrt.Assert("marshal_ok", err == nil)
	want := zzCompact(uint64(x))
	vrt.Assert("canonical", vrt.BytesEq(enc, want))
	var back uint
	err = Unmarshal(enc, &back)
	vrt.Assert("roundtrip", vrt.And(err == nil, back == x))
	vrt.Reach("end")
}

type zzStructA struct {
	B uint16 `scale:"2"`
	A uint32 `scale:"1"`
	S []byte `scale:"3"`
	X bool   `scale:"-"`
	O *uint8 `scale:"4"`
}

// ZZ_C11_struct: field-order tags, skipped field, option, byte string.
func ZZ_C11_struct() {
	n := vrt.Range("slen", 0, 2)
	v := zzStructA{B: vrt.U16("b"), A: vrt.U32("a"), S: vrt.Bytes("s", n), X: true}
	hasO := vrt.Bool("haso")
	o := vrt.U8("o")
	if hasO {
		v.O = &o
	}
	enc, err := Marshal(v)
	vrt.Assert("marshal_ok", err == nil)
	want := append([]byte{}, zzLE(uint64(v.A), 4)...)
	want = append(want, zzLE(uint64(v.B), 2)...)
	want = append(want, zzCompact(uint64(n))...)
	want = append(want, v.S...)
	if hasO {
		want = append(want, 1, o)
	} else {
		want = append(want, 0)
	}
	vrt.Assert("canonical", vrt.BytesEq(enc, want))
	var back zzStructA
	err = Unmarshal(enc, &back)
	vrt.Assert("decode_ok", err == nil)
	ok := vrt.And(back.A == v.A, back.B == v.B)
	ok = vrt.And(ok, vrt.BytesEq(back.S, v.S))
	ok = vrt.And(ok, (back.O != nil) == hasO)
	if back.O != nil && hasO {
		ok = vrt.And(ok, *back.O == o)
	}
	vrt.Assert("roundtrip", ok)
	vrt.Reach("end")
}
