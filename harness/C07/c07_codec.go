package codec

import (
	"bytes"

	"github.com/ChainSafe/gossamer/internal/primitives/core/hash"

	vrt "github.com/ChainSafe/gossamer/internal/zzverif/vrt"
)

// ZZ_C07_codec_header_roundtrip: triedb codec EncodeHeader -> decodeHeader for every
// partial key length 0..65535 and all five kinds.
func ZZ_C07_codec_header_roundtrip() {
	vrt.StepLimit(20_000_000)
	L := uint(vrt.U16("len"))
	kind := NodeKind(vrt.Choice("kind", 5))
	var want variant
	switch kind {
	case LeafNode:
		want = leafVariant
	case LeafWithHashedValue:
		want = leafWithHashedValueVariant
	case BranchWithoutValue:
		want = branchVariant
	case BranchWithValue:
		want = branchWithValueVariant
	case BranchWithHashedValue:
		want = branchWithHashedValueVariant
	}
	buf := bytes.NewBuffer(nil)
	err := EncodeHeader(nil, L, kind, buf)
	vrt.Assert("encode_ok", err == nil)
	v, l, err := decodeHeader(buf)
	vrt.Assert("decode_ok", err == nil)
	vrt.Assert("variant_roundtrip", v == want)
	vrt.Assert("length_roundtrip", uint(l) == L)
	vrt.Assert("header_fully_consumed", buf.Len() == 0)
	vrt.Reach("end")
}

// ZZ_C07_codec_decode_key: decodeKey for every 16-bit length: no panic; length preserved.
func ZZ_C07_codec_decode_key() {
	vrt.AllocLimit(1 << 20)
	L := vrt.U16("len")
	avail := vrt.Range("avail", 0, 3)
	data := vrt.Bytes("d", avail)
	b, err := decodeKey(bytes.NewReader(data), L)
	if err == nil {
		vrt.Assert("key_length", b.Len() == uint(L))
	}
	vrt.Reach("end")
}

// ZZ_C07_codec_decode_robust: triedb codec Decode of every byte string of length 0..N.
func ZZ_C07_codec_decode_robust() {
	vrt.AllocLimit(16 << 20)
	n := vrt.Range("n", 0, vrt.Param("maxlen", 4))
	data := vrt.Bytes("in", n)
	_, _ = Decode[hash.H256](bytes.NewReader(data))
	vrt.Reach("end")
}
