package node

import (
	"bytes"

	"github.com/ChainSafe/gossamer/lib/common"

	vrt "github.com/ChainSafe/gossamer/internal/zzverif/vrt"
)

// ZZ_C07_header_roundtrip: encodeHeader -> decodeHeader for EVERY partial key length
// 0..65535 (symbolic 16-bit value; the node's PartialKey is a length-only slice) and all
// five node variants.
func ZZ_C07_header_roundtrip() {
	vrt.StepLimit(20_000_000)
	L := int(vrt.U16("len"))
	n := &Node{PartialKey: vrt.OpaqueBytes(L)}
	hashed := false
	kind := vrt.Choice("variant", 5)
	var want variant
	switch kind {
	case 0:
		want = leafVariant
	case 1:
		hashed = true
		want = leafWithHashedValueVariant
	case 2:
		n.Children = make([]*Node, ChildrenCapacity)
		want = branchVariant
	case 3:
		n.Children = make([]*Node, ChildrenCapacity)
		n.StorageValue = []byte{1}
		want = branchWithValueVariant
	case 4:
		n.Children = make([]*Node, ChildrenCapacity)
		n.StorageValue = []byte{1}
		hashed = true
		want = branchWithHashedValueVariant
	}
	buf := bytes.NewBuffer(nil)
	err := encodeHeader(n, hashed, buf)
	vrt.Assert("encode_ok", err == nil)
	v, l, err := decodeHeader(buf)
	vrt.Assert("decode_ok", err == nil)
	vrt.Assert("variant_roundtrip", v == want)
	vrt.Assert("length_roundtrip", int(l) == L)
	vrt.Assert("header_fully_consumed", buf.Len() == 0)
	vrt.Reach("end")
}

// ZZ_C07_decode_key: decodeKey for every 16-bit partial key length against a reader holding
// avail bytes: never panics; on success returns exactly that many nibbles.
func ZZ_C07_decode_key() {
	vrt.AllocLimit(1 << 20)
	L := vrt.U16("len")
	avail := vrt.Range("avail", 0, 3)
	data := vrt.Bytes("d", avail)
	r := bytes.NewReader(data)
	b, err := decodeKey(r, L)
	if err == nil {
		vrt.Assert("key_length", len(b) == int(L))
	}
	vrt.Reach("end")
}

func zzNibbles(name string, n int) []byte {
	b := vrt.Bytes(name, n)
	for _, x := range b {
		vrt.Assume(x < 16)
	}
	return b
}

// ZZ_C07_node_roundtrip: leaves and branches (value: none / inline 0..2 bytes / hashed),
// partial key 0..4 symbolic nibbles, children bitmap over two slots each either absent,
// a hashed child (32-byte Merkle value) or an inlined leaf.
func ZZ_C07_node_roundtrip() {
	pk := zzNibbles("pk", vrt.Range("pklen", 0, vrt.Param("maxpk", 4)))
	n := &Node{PartialKey: pk}
	valKind := vrt.Choice("valkind", 3) // 0 none (branch only) / inline / hashed
	isBranch := vrt.Bool("branch")
	switch valKind {
	case 1:
		n.StorageValue = vrt.Bytes("val", vrt.Range("vallen", 0, 2))
	case 2:
		// value stored by hash: the encoder hashes it, the decoder returns the 32-byte hash
		n.StorageValue = vrt.Bytes("hval", 33)
		n.MustBeHashed = true
	default:
		vrt.Assume(isBranch) // a leaf always carries a value
	}
	var slots [2]int
	var childKind [ChildrenCapacity]int
	wantValue := n.StorageValue
	if n.MustBeHashed {
		h, herr := common.Blake2bHash(n.StorageValue)
		vrt.Assert("hash_ok", herr == nil)
		wantValue = h.ToBytes()
	}
	if isBranch {
		n.Children = make([]*Node, ChildrenCapacity)
		slots = [2]int{vrt.Range("slot0", 0, 15), 0}
		slots[1] = vrt.Range("slot1", 0, 15)
		vrt.Assume(slots[0] < slots[1])
		for i, s := range slots {
			childKind[s] = vrt.Choice("child"+string(rune('0'+i)), 3)
			switch childKind[s] {
			case 1:
				n.Children[s] = &Node{MerkleValue: vrt.Bytes("mv"+string(rune('0'+i)), 32)}
				n.Descendants++
			case 2:
				n.Children[s] = &Node{PartialKey: zzNibbles("cpk"+string(rune('0'+i)), 1), StorageValue: vrt.Bytes("cv"+string(rune('0'+i)), 1)}
				n.Descendants++
			}
		}
	}
	buf := bytes.NewBuffer(nil)
	err := n.Encode(buf)
	vrt.Assert("encode_ok", err == nil)
	got, err := Decode(bytes.NewReader(buf.Bytes()))
	vrt.Assert("decode_ok", vrt.And(err == nil, got != nil))
	if got == nil {
		return
	}
	vrt.Assert("kind", got.Kind() == n.Kind())
	vrt.Assert("partial_key", vrt.BytesEq(got.PartialKey, n.PartialKey))
	vrt.Assert("value_presence", (got.StorageValue == nil) == (n.StorageValue == nil))
	vrt.Assert("value", vrt.BytesEq(got.StorageValue, wantValue))
	vrt.Assert("hashed_flag", got.IsHashedValue == n.MustBeHashed)
	if isBranch {
		vrt.Assert("descendants", got.Descendants == n.Descendants)
		for s := 0; s < ChildrenCapacity; s++ {
			a, b := n.Children[s], got.Children[s]
			vrt.Assert("child_presence", (a == nil) == (b == nil))
			if a != nil && b != nil {
				if childKind[s] == 1 {
					vrt.Assert("child_hash", vrt.BytesEq(b.MerkleValue, a.MerkleValue))
				} else {
					vrt.Assert("child_inline", vrt.And(vrt.BytesEq(b.PartialKey, a.PartialKey), vrt.BytesEq(b.StorageValue, a.StorageValue)))
				}
			}
		}
	}
	vrt.Reach("end")
}

// ZZ_C07_decode_robust: Decode of every byte string of length 0..N: node or error, no panic,
// bounded allocation, terminates within the step budget.
func ZZ_C07_decode_robust() {
	vrt.AllocLimit(16 << 20)
	n := vrt.Range("n", 0, vrt.Param("maxlen", 6))
	data := vrt.Bytes("in", n)
	nd, err := Decode(bytes.NewReader(data))
	if err == nil && nd != nil {
		vrt.Assert("decoded_key_nibbles", len(nd.PartialKey) <= 65535)
	}
	vrt.Reach("end")
}
