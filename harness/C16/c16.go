package blocktree

import (
	"bytes"

	vrt "github.com/ChainSafe/gossamer/internal/zzverif/vrt"
)

// reference score of a leaf: primary blocks on its chain after the root
func (t *zzTree) primaryCount(i int) int {
	c := 0
	for x := i; x > 0; x = t.parent[x] {
		if t.primary[x] {
			c++
		}
	}
	return c
}

// better: leaf a is strictly preferred over leaf b
func (t *zzTree) better(a, b int) bool {
	pa, pb := t.primaryCount(a), t.primaryCount(b)
	if pa != pb {
		return pa > pb
	}
	if t.number[a] != t.number[b] {
		return t.number[a] > t.number[b]
	}
	if t.arrival[a] != t.arrival[b] { // forks on symbolic arrival instants
		return t.arrival[a] < t.arrival[b]
	}
	return bytes.Compare(t.hash[a][:], t.hash[b][:]) < 0
}

// ZZ_C16_fork_choice: the best block is the reference-best leaf, for every tree shape,
// primary-flag assignment and arrival times, and it is the same when the blocks are inserted
// in a different (still parent-first) order.
func ZZ_C16_fork_choice() {
	n := vrt.Param("blocks", 4)
	t := zzGenTree(n, true)
	bt := t.build(zzNatural(n))
	// reference best leaf
	best := -1
	for i := 0; i <= n; i++ {
		leaf := true
		for j := 1; j <= n; j++ {
			if t.parent[j] == i {
				leaf = false
			}
		}
		if !leaf {
			continue
		}
		if best < 0 || t.better(i, best) {
			best = i
		}
	}
	got := bt.BestBlockHash()
	vrt.Assert("best_is_reference_best_leaf", got == t.hash[best])
	// another parent-first order: by block number, higher index first inside a level
	var order []int
	for num := uint(1); num <= uint(n); num++ {
		for i := n; i >= 1; i-- {
			if t.number[i] == num {
				order = append(order, i)
			}
		}
	}
	bt2 := t.build(order)
	vrt.Assert("best_independent_of_insertion_order", bt2.BestBlockHash() == got)
	vrt.Reach("end")
}
