package blocktree

import (
	"bytes"
	"time"

	vrt "github.com/ChainSafe/gossamer/internal/zzverif/vrt"
)

// reference score of a leaf: primary blocks on its chain after the root
func (t *zzTree) primaryCount(i int) int {
	c := 0
	for x := i; x > 0; x = t.parent[x] {
		if t.primary[x] {
			c++
		}
	}
	return c
}

// better: leaf a is strictly preferred over leaf b
func (t *zzTree) better(a, b int) bool {
	pa, pb := t.primaryCount(a), t.primaryCount(b)
	if pa != pb {
		return pa > pb
	}
	if t.number[a] != t.number[b] {
		return t.number[a] > t.number[b]
	}
	if t.arrival[a] != t.arrival[b] { // forks on symbolic arrival instants
		return t.arrival[a] < t.arrival[b]
	}
	return bytes.Compare(t.hash[a][:], t.hash[b][:]) < 0
}

// ZZ_C16_fork_choice: the best block is the reference-best leaf, for every tree shape,
// primary-flag assignment and arrival times, and it is the same when the blocks are inserted
// in a different (still parent-first) order.
func ZZ_C16_fork_choice() {
	n := vrt.Param("blocks", 4)
	t := zzGenTree(n, true)
	bt := t.build(zzNatural(n))
	// reference best leaf
	best := -1
	for i := 0; i <= n; i++ {
		leaf := true
		for j := 1; j <= n; j++ {
			if t.parent[j] == i {
				leaf = false
			}
		}
		if !leaf {
			continue
		}
		if best < 0 || t.better(i, best) {
			best = i
		}
	}
	got := bt.BestBlockHash()
	vrt.Assert("best_is_reference_best_leaf", got == t.hash[best])
	// another parent-first order: by block number, higher index first inside a level
	var order []int
	for num := uint(1); num <= uint(n); num++ {
		for i := n; i >= 1; i-- {
			if t.number[i] == num {
				order = append(order, i)
			}
		}
	}
	bt2 := t.build(order)
	vrt.Assert("best_independent_of_insertion_order", bt2.BestBlockHash() == got)
	vrt.Reach("end")
}

// primaryCountFrom counts primary blocks on i's chain strictly after block root.
func (t *zzTree) primaryCountFrom(i, root int) int {
	c := 0
	for x := i; x != root && x > 0; x = t.parent[x] {
		if t.primary[x] {
			c++
		}
	}
	return c
}

// ZZ_C16_after_finalisation: fork choice stays correct across a finalisation: best block is
// queried, a block is finalised (the tree is re-rooted and pruned), new blocks are added under
// the surviving tree, and the best block is compared with the reference computed relative to
// the NEW root.
func ZZ_C16_after_finalisation() {
	n := vrt.Param("blocks", 3)
	extra := vrt.Param("extra", 2)
	t := zzGenTree(n, true)
	bt := t.build(zzNatural(n))
	_ = bt.BestBlockHash() // query before finalisation (caches, if any, get filled)
	f := 1 + vrt.Choice("finalise", n)
	bt.Prune(t.hash[f])
	live := []int{}
	for i := 0; i <= n; i++ {
		if t.isAncestor(f, i) {
			live = append(live, i)
		}
	}
	for e := 0; e < extra; e++ {
		sfx := string(rune('a' + e))
		p := live[vrt.Choice("xparent"+sfx, len(live))]
		prim := vrt.Bool("xprimary" + sfx)
		idx := len(t.parent)
		h := zzHeader(idx, t.hash[p], t.number[p]+1, prim)
		t.parent = append(t.parent, p)
		t.number = append(t.number, t.number[p]+1)
		t.primary = append(t.primary, prim)
		t.hdr = append(t.hdr, h)
		t.hash = append(t.hash, h.Hash())
		t.arrival = append(t.arrival, int64(vrt.U8("xarrival"+sfx)))
		err := bt.AddBlock(h, time.Unix(t.arrival[idx], 0))
		vrt.Assert("add_after_finalisation_ok", err == nil)
		live = append(live, idx)
	}
	best := -1
	for _, i := range live {
		leaf := true
		for _, j := range live {
			if j != f && t.parent[j] == i {
				leaf = false
			}
		}
		if !leaf {
			continue
		}
		if best < 0 {
			best = i
			continue
		}
		pa, pb := t.primaryCountFrom(i, f), t.primaryCountFrom(best, f)
		better := false
		switch {
		case pa != pb:
			better = pa > pb
		case t.number[i] != t.number[best]:
			better = t.number[i] > t.number[best]
		case t.arrival[i] != t.arrival[best]:
			better = t.arrival[i] < t.arrival[best]
		default:
			better = bytes.Compare(t.hash[i][:], t.hash[best][:]) < 0
		}
		if better {
			best = i
		}
	}
	vrt.Assert("best_after_finalisation", bt.BestBlockHash() == t.hash[best])
	vrt.Reach("end")
}
