package state

import (
	"encoding/json"
	"time"

	"github.com/ChainSafe/gossamer/dot/types"
	"github.com/ChainSafe/gossamer/internal/zzverif/kv"
	vrt "github.com/ChainSafe/gossamer/internal/zzverif/vrt"
	"github.com/ChainSafe/gossamer/lib/blocktree"
	"github.com/ChainSafe/gossamer/lib/common"
)

type zzNoTelemetry struct{}

func (zzNoTelemetry) SendMessage(json.Marshaler) {}

// ---- scenario: a block tree below a root, given by symbolic parent pointers

type zzTree23 struct {
	parent []int // parent[0] = -1 (root)
	number []uint
	hdr    []*types.Header
}

func (t *zzTree23) isAncestorOrSelf(a, b int) bool { // a is an ancestor of b or b itself
	for b >= 0 {
		if a == b {
			return true
		}
		b = t.parent[b]
	}
	return false
}

func zzBuildTree23(n int) (*zzTree23, *BlockState) {
	t := &zzTree23{parent: []int{-1}, number: []uint{0}}
	root := &types.Header{Number: 0, Digest: types.NewDigest()}
	t.hdr = []*types.Header{root}
	bt := blocktree.NewBlockTreeFromRoot(root)
	for i := 1; i <= n; i++ {
		p := 0
		if i > 1 {
			p = vrt.Choice("parent"+string(rune('0'+i)), i)
		}
		dg := types.NewDigest()
		pd, err := types.NewBabeSecondaryPlainPreDigest(0, uint64(t.number[p]+1)).ToPreRuntimeDigest()
		if err != nil {
			panic(err)
		}
		if err := dg.Add(*pd); err != nil {
			panic(err)
		}
		h := &types.Header{ParentHash: t.hdr[p].Hash(), Number: t.number[p] + 1, Digest: dg,
			StateRoot: common.Hash{byte(i)}}
		t.parent = append(t.parent, p)
		t.number = append(t.number, h.Number)
		t.hdr = append(t.hdr, h)
		vrt.Assert("addblock_ok", bt.AddBlock(h, time.Unix(int64(i), 0)) == nil)
	}
	return t, &BlockState{bt: bt}
}

func zzAuths23(id uint64) []types.GrandpaAuthoritiesRaw {
	var key [32]byte
	key[0] = 1
	return []types.GrandpaAuthoritiesRaw{{Key: key, ID: id}}
}

// ---- reference: Substrate's pending standard changes (a fork tree keyed by the announcing
// block, finalised with finalize_with_descendent_if(effective number <= finalised number))

type zzNode23 struct {
	block    int
	delay    uint
	children []*zzNode23
}

type zzRef23 struct {
	t     *zzTree23
	roots []*zzNode23
	setID uint64
	// per applied set id: announcing block of the change and its effective number
	appliedBlock []int
	appliedAt    []uint
}

func (r *zzRef23) importChange(block int, delay uint) {
	n := &zzNode23{block: block, delay: delay}
	list := &r.roots
	for {
		var next *zzNode23
		for _, c := range *list {
			if c.block != block && r.t.isAncestorOrSelf(c.block, block) {
				next = c
				break
			}
		}
		if next == nil {
			break
		}
		list = &next.children
	}
	*list = append(*list, n)
}

func (r *zzRef23) effective(n *zzNode23) uint { return r.t.number[n.block] + n.delay }

// finalize returns false when the scenario reaches the "unfinalized ancestor" error case, on
// whose exact condition Substrate versions differ (left outside the claim).
func (r *zzRef23) finalize(f int) bool {
	num := r.t.number[f]
	var applied *zzNode23
	for _, root := range r.roots {
		if vrt.And(r.effective(root) <= num, r.t.isAncestorOrSelf(root.block, f)) { // forks on the delay
			for _, c := range root.children {
				if r.t.number[c.block] <= num && r.t.isAncestorOrSelf(c.block, f) {
					return false
				}
			}
			applied = root
			break
		}
	}
	if applied != nil {
		r.roots = applied.children
		r.setID++
		r.appliedBlock = append(r.appliedBlock, applied.block)
		r.appliedAt = append(r.appliedAt, r.effective(applied))
	}
	var keep []*zzNode23
	for _, root := range r.roots {
		// descendants of the finalised block, the block itself, or its ancestors
		if r.t.isAncestorOrSelf(f, root.block) || r.t.isAncestorOrSelf(root.block, f) {
			keep = append(keep, root)
		}
	}
	r.roots = keep
	return true
}

// ZZ_C23_scheduled: a symbolic block tree whose blocks may announce scheduled changes with
// symbolic delays; blocks are imported in order, then a chain of blocks is finalised one after
// the other. After every finalisation the current set id, the authorities of every set and the
// block at which each set was activated equal the reference.
func ZZ_C23_scheduled() {
	n := vrt.Param("blocks", 4)
	maxDelay := vrt.Param("maxdelay", 2)
	t, bs := zzBuildTree23(n)
	gs, err := NewGrandpaStateFromGenesis(kv.New(), bs, []types.GrandpaVoter{}, zzNoTelemetry{})
	vrt.Assert("genesis_ok", err == nil)
	ref := &zzRef23{t: t}
	for i := 1; i <= n; i++ {
		sfx := string(rune('0' + i))
		if !vrt.Bool("announces" + sfx) {
			continue
		}
		delay := vrt.U32("delay" + sfx)
		vrt.Assume(delay <= uint32(maxDelay))
		d := types.NewGrandpaConsensusDigest()
		vrt.Assert("digest_ok", d.SetValue(types.GrandpaScheduledChange{Auths: zzAuths23(uint64(100 + i)), Delay: delay}) == nil)
		vrt.Assert("import_change_ok", gs.HandleGRANDPADigest(t.hdr[i], d) == nil)
		ref.importChange(i, uint(delay))
	}
	last := 0
	for step := 0; step < vrt.Param("finalisations", 2); step++ {
		f := 1 + vrt.Choice("fin"+string(rune('0'+step)), n)
		// finalisation moves to a strict descendant of the previous finalised block
		if f == last || !t.isAncestorOrSelf(last, f) {
			vrt.Assume(false)
		}
		last = f
		if !ref.finalize(f) {
			vrt.Assume(false)
		}
		err := gs.ApplyScheduledChanges(t.hdr[f])
		vrt.Assert("apply_ok", err == nil)
		cur, err := gs.GetCurrentSetID()
		vrt.Observe("finalised", f, cur, ref.setID)
		vrt.Assert("set_id_matches", vrt.And(err == nil, cur == ref.setID))
		for id := uint64(1); id <= ref.setID; id++ {
			auths, err := gs.GetAuthorities(id)
			vrt.Assert("authorities_of_set", err == nil && len(auths) == 1 && auths[0].ID == uint64(100+ref.appliedBlock[id-1]))
			at, err := gs.GetSetIDChange(id)
			vrt.Assert("activation_block_of_set", vrt.And(err == nil, at == ref.appliedAt[id-1]))
		}
	}
	vrt.Reach("end")
}

// ZZ_C23_forced: blocks of a symbolic tree may announce forced changes with symbolic delays;
// blocks are imported in order and forced changes are applied on import, as the digest handler
// does. A second forced change on a fork that already has one pending is refused; a forced
// change takes effect exactly when a block with its effective number on its fork is imported;
// every applied change raises the set id by one and installs its authorities.
func ZZ_C23_forced() {
	n := vrt.Param("blocks", 4)
	maxDelay := vrt.Param("maxdelay", 2)
	t, bs := zzBuildTree23(n)
	gs, err := NewGrandpaStateFromGenesis(kv.New(), bs, []types.GrandpaVoter{}, zzNoTelemetry{})
	vrt.Assert("genesis_ok", err == nil)
	type pend struct {
		block int
		delay uint32
	}
	var pending []pend
	setID := uint64(0)
	for i := 1; i <= n; i++ {
		sfx := string(rune('0' + i))
		if vrt.Bool("announces" + sfx) {
			delay := vrt.U32("delay" + sfx)
			vrt.Assume(delay <= uint32(maxDelay))
			d := types.NewGrandpaConsensusDigest()
			vrt.Assert("digest_ok", d.SetValue(types.GrandpaForcedChange{Auths: zzAuths23(uint64(100 + i)), Delay: delay}) == nil)
			err := gs.HandleGRANDPADigest(t.hdr[i], d)
			dup := false
			for _, p := range pending {
				if t.isAncestorOrSelf(p.block, i) {
					dup = true
				}
			}
			vrt.Observe("import", i, err != nil, dup)
			vrt.Assert("one_forced_change_per_fork", (err != nil) == dup)
			if !dup {
				pending = append(pending, pend{i, delay})
			}
		}
		// apply on import
		applied := -1
		for _, p := range pending {
			if vrt.And(uint32(t.number[p.block])+p.delay == uint32(t.number[i]), t.isAncestorOrSelf(p.block, i)) { // forks on the delay
				applied = p.block
				break
			}
		}
		err := gs.ApplyForcedChanges(t.hdr[i])
		vrt.Assert("apply_forced_ok", err == nil)
		if applied >= 0 {
			setID++
			pending = nil
		}
		cur, err := gs.GetCurrentSetID()
		vrt.Observe("imported", i, cur, setID)
		vrt.Assert("forced_set_id_matches", vrt.And(err == nil, cur == setID))
		if applied >= 0 {
			auths, err := gs.GetAuthorities(setID)
			vrt.Assert("forced_authorities", err == nil && len(auths) == 1 && auths[0].ID == uint64(100+applied))
			at, err := gs.GetSetIDChange(setID)
			vrt.Assert("forced_activation_block", vrt.And(err == nil, at == t.number[i]))
		}
	}
	vrt.Reach("end")
}
