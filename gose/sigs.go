package main

// Model of ed25519 (crypto/ed25519) for harnesses. Keys are real (derived by the engine with
// the standard library from the harness's seeds). Signing a fully concrete message yields the
// real signature; signing a message with symbolic bytes yields a fresh dummy signature that is
// recorded. Verify is the real verification when everything is concrete, otherwise the
// closed-world formula "this (key, message, signature) triple was produced by a recorded
// signing operation whose validity flag is true" (unforgeability).

import (
	"crypto/ed25519"
	"crypto/sha512"
	"fmt"
	"go/types"
)

type sigRecord struct {
	pub   []value
	msg   []value
	sig   []value
	valid value // bool or *Term
}

func seedFor(idx int) []byte {
	h := sha512.Sum512([]byte(fmt.Sprintf("zzverif-ed25519-key-%d", idx)))
	return h[:32]
}

func vals(b []byte) []value {
	r := make([]value, len(b))
	for k, x := range b {
		r[k] = x
	}
	return r
}

// dummySig builds a placeholder signature. Signing is deterministic, so the same (key,
// message) gets the same identifier; the validity flag is encoded in one byte so that a valid
// and an invalid signature of the same message differ, as they do natively.
func (i *interpreter) dummySig(pub, msg []value, valid value) []value {
	id := -1
	if mb, ok := allConcreteBytes(msg); ok {
		pb, _ := allConcreteBytes(pub)
		key := fmt.Sprintf("%x|%x", pb, mb)
		if i.ps.sigIDs == nil {
			i.ps.sigIDs = map[string]int{}
		}
		if v, ok := i.ps.sigIDs[key]; ok {
			id = v
		} else {
			i.ps.sigCounter++
			id = i.ps.sigCounter
			i.ps.sigIDs[key] = id
		}
	} else {
		i.ps.sigCounter++
		id = i.ps.sigCounter
	}
	s := make([]value, 64)
	for k := range s {
		s[k] = uint8(0xD5)
	}
	s[0] = uint8(id)
	s[1] = uint8(id >> 8)
	switch v := valid.(type) {
	case bool:
		if v {
			s[3] = uint8(1)
		} else {
			s[3] = uint8(2)
		}
	case *Term:
		s[3] = fromTerm(tU8, i.tb.Ite(v, i.tb.Const(8, 1), i.tb.Const(8, 2)))
	}
	s[63] = uint8(0x0F) // S >= L: never a canonical real signature
	return s
}

func (i *interpreter) signModel(priv ed25519.PrivateKey, msg []value, valid value) []value {
	pub := vals(priv.Public().(ed25519.PublicKey))
	mb, conc := allConcreteBytes(msg)
	vb, vconc := valid.(bool)
	var sig []value
	if conc && vconc {
		if vb {
			sig = vals(ed25519.Sign(priv, mb))
		} else {
			// a real signature over a different message: invalid for msg
			sig = vals(ed25519.Sign(priv, append(append([]byte{}, mb...), 0x5a)))
		}
	} else {
		if i.ps == nil {
			panic(engineError{"symbolic signing outside a path"})
		}
		sig = i.dummySig(pub, msg, valid)
	}
	if i.ps != nil {
		i.ps.sigRecs = append(i.ps.sigRecs, &sigRecord{pub: pub, msg: append([]value(nil), msg...), sig: sig, valid: valid})
	}
	return sig
}

func (i *interpreter) verifyModel(pub, msg, sig []value) value {
	pb, c1 := allConcreteBytes(pub)
	mb, c2 := allConcreteBytes(msg)
	sb, c3 := allConcreteBytes(sig)
	if c1 && c2 && c3 {
		if len(pb) != ed25519.PublicKeySize {
			panic(targetPanic{"ed25519: bad public key length"})
		}
		isDummy := len(sb) == 64 && sb[63] == 0x0F && sb[2] == 0xD5
		if !isDummy {
			return ed25519.Verify(ed25519.PublicKey(pb), mb, sb)
		}
	}
	if i.ps == nil {
		return false
	}
	var res value = false
	for _, r := range i.ps.sigRecs {
		if len(r.pub) != len(pub) || len(r.msg) != len(msg) || len(r.sig) != len(sig) {
			continue
		}
		var m value = r.valid
		for k := range pub {
			m = i.andV(m, i.equalsV(tU8, pub[k], r.pub[k]))
			if m == false {
				break
			}
		}
		if m == false {
			continue
		}
		for k := range sig {
			m = i.andV(m, i.equalsV(tU8, sig[k], r.sig[k]))
			if m == false {
				break
			}
		}
		if m == false {
			continue
		}
		for k := range msg {
			m = i.andV(m, i.equalsV(tU8, msg[k], r.msg[k]))
			if m == false {
				break
			}
		}
		res = i.orV(res, m)
	}
	return res
}

func init() {
	externals["crypto/ed25519.NewKeyFromSeed"] = func(fr *frame, args []value) value {
		sb, ok := allConcreteBytes(args[0].([]value))
		if !ok {
			panic(unsupported("ed25519 key from symbolic seed"))
		}
		return vals(ed25519.NewKeyFromSeed(sb))
	}
	externals["crypto/ed25519.Sign"] = func(fr *frame, args []value) value {
		pb, ok := allConcreteBytes(args[0].([]value))
		if !ok {
			panic(unsupported("ed25519.Sign with symbolic private key"))
		}
		return fr.i.signModel(ed25519.PrivateKey(pb), byteSeq(args[1]), true)
	}
	externals["crypto/ed25519.Verify"] = func(fr *frame, args []value) value {
		return fr.i.verifyModel(byteSeq(args[0]), byteSeq(args[1]), byteSeq(args[2]))
	}
	externals["(crypto/ed25519.PrivateKey).Public"] = func(fr *frame, args []value) value {
		pb, ok := allConcreteBytes(args[0].([]value))
		if !ok {
			panic(unsupported("ed25519 Public of symbolic key"))
		}
		pubT := fr.i.prog.ImportedPackage("crypto/ed25519").Type("PublicKey").Type()
		return iface{t: pubT, v: vals(ed25519.PrivateKey(pb).Public().(ed25519.PublicKey))}
	}
	reg := func(name string, f externalFn) { externals[vrtPath+"."+name] = f }
	reg("Ed25519Seed", func(fr *frame, args []value) value {
		return vals(seedFor(int(asInt64(args[0]))))
	})
	reg("Ed25519Pub", func(fr *frame, args []value) value {
		priv := ed25519.NewKeyFromSeed(seedFor(int(asInt64(args[0]))))
		return array(vals(priv.Public().(ed25519.PublicKey)))
	})
	reg("Ed25519Sign", func(fr *frame, args []value) value {
		priv := ed25519.NewKeyFromSeed(seedFor(int(asInt64(args[0]))))
		return array(fr.i.signModel(priv, byteSeq(args[1]), args[2]))
	})
	_ = types.Typ
}
