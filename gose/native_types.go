package main

// Engine-implemented object types (their methods are native functions), and the models built on
// them: crypto/rand.Reader (nondeterministic bytes) and an ideal AEAD for aes.NewCipher +
// cipher.NewGCM.

import (
	"crypto/aes"
	"crypto/cipher"
	"fmt"
	"go/token"
	"go/types"

	"golang.org/x/tools/go/ssa"
)

var nativeTypes = map[types.Type]func(method string) *nativeFunc{}

var (
	randReaderType = makeNamedType("goseRandReader", types.NewStruct(nil, nil))
	aesBlockType   = makeNamedType("goseAESBlock", types.NewStruct(nil, nil))
	aeadType       = makeNamedType("goseAEAD", types.NewStruct(nil, nil))
)

type aesBlockObj struct{ key []value }
type aeadObj struct{ key []value }

type sealRecord struct {
	key, nonce, pt, ct []value
}

func (i *interpreter) initDeniedSpecial(pkg *ssa.Package) {
	if pkg.Pkg.Path() == "crypto/rand" {
		if g, ok := pkg.Members["Reader"].(*ssa.Global); ok {
			*i.globals[g] = iface{t: randReaderType, v: structure{}}
		}
	}
}

func (i *interpreter) freshBytes(prefix string, n int) []value {
	out := make([]value, n)
	if i.ps == nil {
		for k := range out {
			out[k] = uint8(0)
		}
		return out
	}
	i.ps.randCounter++
	for k := range out {
		out[k] = i.nondetVar(fmt.Sprintf("%s%d_%d", prefix, i.ps.randCounter, k), types.Typ[types.Uint8])
	}
	return out
}

func init() {
	nativeTypes[randReaderType] = func(method string) *nativeFunc {
		return &nativeFunc{name: "rand.Reader." + method, f: func(fr *frame, args []value) value {
			if method != "Read" {
				panic(unsupported("crypto/rand.Reader." + method))
			}
			buf := args[1].([]value)
			copy(buf, fr.i.freshBytes("rand", len(buf)))
			return tuple{len(buf), iface{}}
		}}
	}
	externals["crypto/rand.Read"] = func(fr *frame, args []value) value {
		buf := args[0].([]value)
		copy(buf, fr.i.freshBytes("rand", len(buf)))
		return tuple{len(buf), iface{}}
	}
	externals["crypto/aes.NewCipher"] = func(fr *frame, args []value) value {
		key := append([]value(nil), args[0].([]value)...)
		switch len(key) {
		case 16, 24, 32:
		default:
			panic(unsupported("aes.NewCipher: invalid key size"))
		}
		return tuple{iface{t: aesBlockType, v: &aesBlockObj{key: key}}, iface{}}
	}
	nativeTypes[aesBlockType] = func(method string) *nativeFunc {
		return &nativeFunc{name: "aes.Block." + method, f: func(fr *frame, args []value) value {
			if method == "BlockSize" {
				return 16
			}
			panic(unsupported("raw AES block operation " + method + " (only GCM through cipher.NewGCM is modelled)"))
		}}
	}
	externals["crypto/cipher.NewGCM"] = func(fr *frame, args []value) value {
		blk, ok := args[0].(iface).v.(*aesBlockObj)
		if !ok {
			panic(unsupported("cipher.NewGCM over a non-modelled block cipher"))
		}
		return tuple{iface{t: aeadType, v: &aeadObj{key: blk.key}}, iface{}}
	}
	nativeTypes[aeadType] = func(method string) *nativeFunc {
		return &nativeFunc{name: "cipher.AEAD." + method, f: func(fr *frame, args []value) value {
			a := args[0].(*aeadObj)
			switch method {
			case "NonceSize":
				return 12
			case "Overhead":
				return 16
			case "Seal":
				return fr.i.aeadSeal(a, args[1].([]value), args[2].([]value), args[3].([]value), args[4].([]value))
			case "Open":
				return fr.i.aeadOpen(fr, a, args[1].([]value), args[2].([]value), args[3].([]value), args[4].([]value))
			}
			panic(unsupported("cipher.AEAD." + method))
		}}
	}
}

func realGCM(key []byte) cipher.AEAD {
	b, err := aes.NewCipher(key)
	if err != nil {
		panic(err)
	}
	g, err := cipher.NewGCM(b)
	if err != nil {
		panic(err)
	}
	return g
}

// aeadSeal: real AES-GCM when everything is concrete; otherwise an uninterpreted function of
// (key, nonce, plaintext) producing len(pt)+16 bytes. Every seal is recorded.
func (i *interpreter) aeadSeal(a *aeadObj, dst, nonce, pt, ad []value) value {
	if len(ad) != 0 {
		panic(unsupported("AEAD additional data"))
	}
	if len(nonce) != 12 {
		panic(targetPanic{"crypto/cipher: incorrect nonce length given to GCM"})
	}
	kb, c1 := allConcreteBytes(a.key)
	nb, c2 := allConcreteBytes(nonce)
	pb, c3 := allConcreteBytes(pt)
	var ct []value
	if c1 && c2 && c3 {
		ct = vals(realGCM(kb).Seal(nil, nb, pb, nil))
	} else {
		if i.ps == nil {
			panic(engineError{"symbolic AEAD seal outside a path"})
		}
		in := i.bytesTerm(append(append(append([]value{}, a.key...), nonce...), pt...))
		n := len(pt) + 16
		out := i.tb.UF(fmt.Sprintf("AEAD_seal_n%d", len(pt)), 8*n, in)
		ct = make([]value, n)
		for k := range ct {
			hi := 8*(n-k) - 1
			ct[k] = fromTerm(tU8, i.tb.Extract(out, hi, hi-7))
		}
	}
	if i.ps != nil {
		i.ps.sealRecs = append(i.ps.sealRecs, &sealRecord{key: a.key, nonce: append([]value(nil), nonce...), pt: append([]value(nil), pt...), ct: ct})
	}
	return append(dst, ct...) // appends in place when dst has capacity, like the real Seal
}

// aeadOpen: succeeds exactly when (key, nonce, ciphertext) equal a recorded seal (ideal AEAD:
// no forgeries); fully concrete inputs without a matching record are opened with real AES-GCM.
func (i *interpreter) aeadOpen(fr *frame, a *aeadObj, dst, nonce, ct, ad []value) value {
	if len(ad) != 0 {
		panic(unsupported("AEAD additional data"))
	}
	if len(nonce) != 12 {
		panic(targetPanic{"crypto/cipher: incorrect nonce length given to GCM"})
	}
	fail := func() value {
		es := i.prog.ImportedPackage("errors").Type("errorString").Type()
		p := new(value)
		*p = structure{"cipher: message authentication failed"}
		return tuple{[]value(nil), iface{t: types.NewPointer(es), v: p}}
	}
	if len(ct) < 16 {
		return fail()
	}
	if i.ps != nil {
		for _, r := range i.ps.sealRecs {
			if len(r.ct) != len(ct) {
				continue
			}
			var m value = true
			for k := range ct {
				m = i.andV(m, i.equalsV(tU8, ct[k], r.ct[k]))
				if m == false {
					break
				}
			}
			for k := 0; m != false && k < 12; k++ {
				m = i.andV(m, i.equalsV(tU8, nonce[k], r.nonce[k]))
			}
			for k := 0; m != false && k < len(a.key); k++ {
				m = i.andV(m, i.equalsV(tU8, a.key[k], r.key[k]))
			}
			if m != false && i.truth(m) {
				return tuple{append(dst, r.pt...), iface{}} // in place when dst has capacity (callers may alias the ciphertext)
			}
		}
	}
	kb, c1 := allConcreteBytes(a.key)
	nb, c2 := allConcreteBytes(nonce)
	cb, c3 := allConcreteBytes(ct)
	if c1 && c2 && c3 {
		pt, err := realGCM(kb).Open(nil, nb, cb, nil)
		if err != nil {
			return fail()
		}
		return tuple{append(dst, vals(pt)...), iface{}}
	}
	return fail()
}

var _ = token.NoPos
