package main

// A model of the parts of package fmt that the code under test uses:
// Sprintf/Sprint/Errorf produce strings (bytes may be symbolic for %x/%s of
// symbolic data); Errorf keeps %w operands so errors.Is/As/Unwrap work.

import (
	"fmt"
	"go/token"
	"go/types"
	"strings"
	"unsafe"

	"golang.org/x/tools/go/ssa"
)

func init() {
	externals["fmt.Sprintf"] = func(fr *frame, args []value) value {
		s, _ := fr.i.sprintf(fr, args[0], args[1].([]value))
		return normStr(s)
	}
	externals["fmt.Errorf"] = func(fr *frame, args []value) value {
		i := fr.i
		s, wrapped := i.sprintf(fr, args[0], args[1].([]value))
		msg := normStr(s)
		fmtPkg := i.prog.ImportedPackage("fmt")
		switch len(wrapped) {
		case 0:
			t := fmtPkg.Type("wrapError").Type() // reuse wrapError with nil err? no: plain errorString
			_ = t
			es := i.prog.ImportedPackage("errors").Type("errorString").Type()
			p := new(value)
			*p = structure{msg}
			return iface{t: types.NewPointer(es), v: p}
		case 1:
			t := fmtPkg.Type("wrapError").Type()
			p := new(value)
			*p = structure{msg, wrapped[0]}
			return iface{t: types.NewPointer(t), v: p}
		default:
			t := fmtPkg.Type("wrapErrors").Type()
			p := new(value)
			errs := make([]value, len(wrapped))
			for k, w := range wrapped {
				errs[k] = w
			}
			*p = structure{msg, errs}
			return iface{t: types.NewPointer(t), v: p}
		}
	}
	sprint := func(ln bool) externalFn {
		return func(fr *frame, args []value) value {
			var out symstr
			for k, a := range args[0].([]value) {
				if k > 0 && ln {
					out = append(out, uint8(' '))
				}
				out = append(out, fr.i.render(fr, 'v', "", a.(iface))...)
			}
			if ln {
				out = append(out, uint8('\n'))
			}
			return normStr(out)
		}
	}
	externals["fmt.Sprint"] = sprint(false)
	externals["fmt.Sprintln"] = sprint(true)
	zeroNilErr := func(fr *frame, args []value) value { return tuple{0, iface{}} }
	externals["fmt.Println"] = zeroNilErr
	externals["fmt.Printf"] = zeroNilErr
	externals["fmt.Print"] = zeroNilErr
	externals["fmt.Fprintf"] = func(fr *frame, args []value) value {
		s, _ := fr.i.sprintf(fr, args[1], args[2].([]value))
		return fr.i.writeTo(fr, args[0].(iface), s)
	}
	externals["fmt.Fprint"] = func(fr *frame, args []value) value {
		s := sprint(false)(fr, args[1:])
		return fr.i.writeTo(fr, args[0].(iface), symstr(strBytes(s)))
	}
	externals["fmt.Fprintln"] = func(fr *frame, args []value) value {
		s := sprint(true)(fr, args[1:])
		return fr.i.writeTo(fr, args[0].(iface), symstr(strBytes(s)))
	}
}

func (i *interpreter) writeTo(fr *frame, w iface, s symstr) value {
	if w.t == nil {
		panic(i.nilDeref())
	}
	if w.t == stubType {
		return tuple{len(s), iface{}}
	}
	m := i.findMethod(w.t, "Write")
	if m == nil {
		panic(unsupported("fmt.Fprintf to writer without Write"))
	}
	b := make([]value, len(s))
	copy(b, s)
	return call(i, fr, token.NoPos, m, []value{w.v, b})
}

// sprintf renders format with args; returns the bytes and the %w operands.
func (i *interpreter) sprintf(fr *frame, format value, args []value) (symstr, []iface) {
	f, ok := format.(string)
	if !ok {
		return symstr(strBytes("<symbolic format>")), nil
	}
	var out symstr
	var wrapped []iface
	argi := 0
	for p := 0; p < len(f); p++ {
		c := f[p]
		if c != '%' {
			out = append(out, c)
			continue
		}
		p++
		if p >= len(f) {
			out = append(out, '%', '!')
			break
		}
		start := p
		for p < len(f) && strings.IndexByte("+-# 0123456789.*[]", f[p]) >= 0 {
			p++
		}
		if p >= len(f) {
			break
		}
		flags := f[start:p]
		verb := f[p]
		if verb == '%' {
			out = append(out, '%')
			continue
		}
		if strings.Contains(flags, "*") {
			argi++ // width operand
		}
		if argi >= len(args) {
			out = append(out, symstr(strBytes("%!"+string(verb)+"(MISSING)"))...)
			continue
		}
		a := args[argi].(iface)
		argi++
		if verb == 'w' {
			if a.t != nil {
				wrapped = append(wrapped, a)
			}
			verb = 'v'
		}
		out = append(out, i.render(fr, verb, flags, a)...)
	}
	return out, wrapped
}

func hexDigit(i *interpreter, nib value, upper bool) value {
	a := uint64('a')
	if upper {
		a = 'A'
	}
	if t, ok := nib.(*Term); ok {
		tb := i.tb
		lt := tb.Cmp(opUlt, t, tb.Const(8, 10))
		return tb.Ite(lt, tb.Bin(opAdd, t, tb.Const(8, '0')), tb.Bin(opAdd, t, tb.Const(8, a-10)))
	}
	n := nib.(uint8)
	if n < 10 {
		return '0' + n
	}
	return uint8(a) - 10 + n
}

func (i *interpreter) hexBytes(b []value, upper bool) symstr {
	var out symstr
	for _, x := range b {
		hi := binop(i, token.SHR, tU8, types.Typ[types.Uint], x, uint(4))
		lo := binop(i, token.AND, tU8, tU8, x, uint8(15))
		out = append(out, hexDigit(i, hi, upper), hexDigit(i, lo, upper))
	}
	return out
}

func isByteSeqType(t types.Type) bool {
	switch u := t.Underlying().(type) {
	case *types.Slice:
		b, ok := u.Elem().Underlying().(*types.Basic)
		return ok && b.Kind() == types.Uint8
	case *types.Array:
		b, ok := u.Elem().Underlying().(*types.Basic)
		return ok && b.Kind() == types.Uint8
	}
	return false
}

// render formats one operand.
func (i *interpreter) render(fr *frame, verb byte, flags string, a iface) symstr {
	S := func(s string) symstr { return symstr(strBytes(s)) }
	if a.t == nil {
		return S("<nil>")
	}
	if a.t == stubType {
		return S("<stub>")
	}
	v := a.v
	// *big.Int implements fmt.Formatter; %d/%v/%s print its decimal String()
	if ts := a.t.String(); (ts == "*math/big.Int") && (verb == 'd' || verb == 'v' || verb == 's') {
		if p, ok := v.(*value); ok && p != nil {
			if m := i.findMethod(a.t, "String"); m != nil {
				return symstr(strBytes(call(i, fr, token.NoPos, m, []value{v})))
			}
		}
	}
	// error / Stringer
	if verb == 'v' || verb == 's' || verb == 'q' {
		if p, ok := v.(*value); ok && p == nil {
			// nil pointer receiver: avoid calling methods
			return S("<nil>")
		}
		if m := i.findMethod(a.t, "Error"); m != nil && m.Signature.Params().Len() == 0 && m.Signature.Results().Len() == 1 {
			r := call(i, fr, token.NoPos, m, []value{v})
			return symstr(strBytes(r))
		}
		if m := i.findMethod(a.t, "String"); m != nil && m.Signature.Params().Len() == 0 && m.Signature.Results().Len() == 1 {
			if b, ok := m.Signature.Results().At(0).Type().Underlying().(*types.Basic); ok && b.Kind() == types.String {
				r := call(i, fr, token.NoPos, m, []value{v})
				return symstr(strBytes(r))
			}
		}
	}
	if (verb == 'x' || verb == 'X') && isByteSeqType(a.t) {
		var out symstr
		if strings.Contains(flags, "#") {
			out = S("0x")
		}
		return append(out, i.hexBytes(byteSeqOrSlice(v), verb == 'X')...)
	}
	switch x := v.(type) {
	case *Term:
		if x.w == 8 && (verb == 'x' || verb == 'X') {
			return i.hexBytes([]value{x}, verb == 'X')
		}
		return S("<sym>")
	case symstr:
		if verb == 'x' || verb == 'X' {
			return i.hexBytes([]value(x), verb == 'X')
		}
		if verb == 'q' {
			return append(append(S("\""), x...), '"')
		}
		return x
	case string:
		return S(fmt.Sprintf("%"+flags+string(verb), x))
	case bool, float32, float64, complex64, complex128:
		return S(fmt.Sprintf("%"+flags+string(verb), x))
	case *value:
		if verb == 'v' || verb == 's' {
			if x == nil {
				return S("<nil>")
			}
			if pt, ok := a.t.Underlying().(*types.Pointer); ok {
				if _, isStruct := pt.Elem().Underlying().(*types.Struct); isStruct {
					return append(S("&"), i.render(fr, verb, flags, iface{t: pt.Elem(), v: *x})...)
				}
			}
		}
		return S(fmt.Sprintf("0x%x", uintptr(unsafe.Pointer(x))))
	case []value:
		return i.renderSeq(fr, verb, flags, a.t.Underlying().(*types.Slice).Elem(), x)
	case array:
		return i.renderSeq(fr, verb, flags, a.t.Underlying().(*types.Array).Elem(), []value(x))
	case structure:
		st, ok := a.t.Underlying().(*types.Struct)
		if !ok {
			return S("<" + typeString(a.t) + ">")
		}
		out := S("{")
		for k, e := range x {
			if k > 0 {
				out = append(out, ' ')
			}
			if strings.Contains(flags, "+") {
				out = append(out, S(st.Field(k).Name()+":")...)
			}
			out = append(out, i.render(fr, verb, flags, i.asIface(st.Field(k).Type(), e))...)
		}
		return append(out, '}')
	case iface:
		return i.render(fr, verb, flags, x)
	case *gmap:
		return S(fmt.Sprintf("map[%d entries]", x.len()))
	case rtype:
		return S(typeString(x.t))
	case *ssa.Function, *closure, *nativeFunc:
		return S("<func>")
	case unsafe.Pointer:
		return S(fmt.Sprintf("%p", x))
	}
	if _, _, ok := intBits(v); ok {
		if verb == 's' {
			return S(fmt.Sprintf("%%!s(%s=%v)", typeString(a.t), v))
		}
		return S(fmt.Sprintf("%"+flags+string(verb), v))
	}
	return S("<" + typeString(a.t) + ">")
}

func (i *interpreter) asIface(t types.Type, v value) iface {
	if it, ok := v.(iface); ok {
		if _, isI := t.Underlying().(*types.Interface); isI {
			return it
		}
	}
	return iface{t: t, v: v}
}

func (i *interpreter) renderSeq(fr *frame, verb byte, flags string, elem types.Type, xs []value) symstr {
	out := symstr{'['}
	for k, e := range xs {
		if k > 0 {
			out = append(out, ' ')
		}
		out = append(out, i.render(fr, verb, flags, i.asIface(elem, e))...)
	}
	return append(out, ']')
}
