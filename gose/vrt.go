package main

// Engine-side implementation of the harness runtime package vrt.

import (
	"fmt"
	"go/types"
	"math/big"
	"strings"
)

const vrtPath = "github.com/ChainSafe/gossamer/internal/zzverif/vrt"

func init() {
	reg := func(name string, f externalFn) { externals[vrtPath+"."+name] = f }
	scalar := func(t types.Type) externalFn {
		return func(fr *frame, args []value) value {
			return fr.i.nondetVar(strArg(args[0]), t)
		}
	}
	reg("Bool", scalar(types.Typ[types.Bool]))
	reg("U8", scalar(types.Typ[types.Uint8]))
	reg("U16", scalar(types.Typ[types.Uint16]))
	reg("U32", scalar(types.Typ[types.Uint32]))
	reg("U64", scalar(types.Typ[types.Uint64]))
	reg("I8", scalar(types.Typ[types.Int8]))
	reg("I16", scalar(types.Typ[types.Int16]))
	reg("I32", scalar(types.Typ[types.Int32]))
	reg("I64", scalar(types.Typ[types.Int64]))
	reg("Int", scalar(types.Typ[types.Int]))
	reg("Uint", scalar(types.Typ[types.Uint]))
	reg("Bytes", func(fr *frame, args []value) value {
		name := strArg(args[0])
		n := fr.i.concreteLen(args[1], "vrt.Bytes len")
		s := make([]value, n)
		for k := range s {
			s[k] = fr.i.nondetVar(fmt.Sprintf("%s_%d", name, k), types.Typ[types.Uint8])
		}
		return s
	})
	reg("Range", func(fr *frame, args []value) value {
		i := fr.i
		name := strArg(args[0])
		lo, hi := asInt64(args[1]), asInt64(args[2])
		v := i.nondetVar(name, types.Typ[types.Int])
		t, ok := v.(*Term)
		if !ok {
			c := int64(v.(int))
			if pin := i.pinMap(); pin != nil {
				if _, has := pin[name]; !has {
					c = lo
				}
			}
			if c < lo || c > hi {
				panic(pathAbort{kind: "assume"})
			}
			return int(c)
		}
		tb := i.tb
		i.ps.assume(tb.And(tb.Cmp(opSle, tb.Const(64, uint64(lo)), t), tb.Cmp(opSle, t, tb.Const(64, uint64(hi)))))
		return int(int64(i.concretize(t, "vrt.Range "+name)))
	})
	reg("Choice", func(fr *frame, args []value) value {
		return externals[vrtPath+".Range"](fr, []value{args[0], 0, int(asInt64(args[1]) - 1)})
	})
	reg("Concretize", func(fr *frame, args []value) value {
		if t, ok := args[0].(*Term); ok {
			return int(int64(fr.i.concretize(t, "vrt.Concretize")))
		}
		return args[0]
	})
	reg("Assume", func(fr *frame, args []value) value {
		i := fr.i
		switch c := args[0].(type) {
		case bool:
			if !c {
				panic(pathAbort{kind: "assume"})
			}
		case *Term:
			i.assumeChecked(c)
		}
		return nil
	})
	reg("Assert", extVrtAssert)
	reg("Reach", func(fr *frame, args []value) value {
		sh := fr.i.sh
		if fr.i.warm {
			return nil
		}
		sh.mu.Lock()
		sh.reach[strArg(args[0])]++
		sh.mu.Unlock()
		return nil
	})
	reg("And", func(fr *frame, args []value) value { return fr.i.andV(args[0], args[1]) })
	reg("Or", func(fr *frame, args []value) value { return fr.i.orV(args[0], args[1]) })
	reg("Not", func(fr *frame, args []value) value { return fr.i.notV(args[0]) })
	reg("Implies", func(fr *frame, args []value) value { return fr.i.orV(fr.i.notV(args[0]), args[1]) })
	reg("IteU64", func(fr *frame, args []value) value {
		i := fr.i
		if c, ok := args[0].(bool); ok {
			if c {
				return args[1]
			}
			return args[2]
		}
		return fromTerm(types.Typ[types.Uint64], i.tb.Ite(args[0].(*Term), i.toTerm(args[1]), i.toTerm(args[2])))
	})
	reg("BytesEq", func(fr *frame, args []value) value { return extBytesEqual(fr, args) })
	reg("Observe", func(fr *frame, args []value) value {
		if fr.i.ps == nil {
			return nil
		}
		vals := args[1].([]value)
		parts := make([]string, len(vals))
		for k, v := range vals {
			parts[k] = renderObs(v)
		}
		fr.i.ps.obs = append(fr.i.ps.obs, strArg(args[0])+": "+strings.Join(parts, " "))
		return nil
	})
	reg("AllocLimit", func(fr *frame, args []value) value {
		fr.i.ps.allocLimit = int(asInt64(args[0]))
		return nil
	})
	reg("StepLimit", func(fr *frame, args []value) value {
		fr.i.ps.stepLimit = asInt64(args[0])
		return nil
	})
	reg("Param", func(fr *frame, args []value) value {
		if v, ok := fr.i.sh.opts.params[strArg(args[0])]; ok {
			return v
		}
		return args[1]
	})
	reg("Ghost", func(fr *frame, args []value) value {
		i := fr.i
		if i.pinMap() != nil {
			return nil
		}
		// A ghost may be re-defined as the harness proceeds: each definition binds a fresh
		// version, and known-finding predicates see the latest one (false when undefined).
		name := strArg(args[0])
		if i.ps.ghostVer == nil {
			i.ps.ghostVer = map[string]int{}
		}
		i.ps.ghostVer[name]++
		g := i.nondetVar(fmt.Sprintf("%s#%d", name, i.ps.ghostVer[name]), types.Typ[types.Bool]).(*Term)
		i.ps.assume(i.tb.Eq(g, i.toTerm(args[1])))
		return nil
	})
	reg("OpaqueBytes", func(fr *frame, args []value) value {
		if _, ok := args[0].(*Term); !ok {
			n := int(asInt64(args[0]))
			s := make([]value, n)
			for k := range s {
				s[k] = uint8(0)
			}
			return s
		}
		return &opaqueSlice{n: args[0]}
	})
	reg("Symbolic", func(fr *frame, args []value) value { return fr.i.sh.opts.pin == nil })
}

var warmPin = map[string]*big.Int{}

// pinMap returns the pinned input values (replay mode), an empty pinning during the warm-up run
// (every input is zero), or nil when inputs are symbolic.
func (i *interpreter) pinMap() map[string]*big.Int {
	if i.warm {
		return warmPin
	}
	return i.sh.opts.pin
}

func strArg(v value) string {
	s, ok := v.(string)
	if !ok {
		panic(unsupported("vrt: name/label must be a concrete string"))
	}
	return s
}

func renderObs(v value) string {
	if it, ok := v.(iface); ok {
		if it.t == nil {
			return "<nil>"
		}
		v = it.v
	}
	switch v := v.(type) {
	case *Term:
		return "<sym>"
	case symstr:
		return "<symstr>"
	case string:
		return v
	case bool:
		return fmt.Sprint(v)
	case []value:
		parts := make([]string, len(v))
		for k, e := range v {
			parts[k] = renderObs(e)
		}
		return "[" + strings.Join(parts, " ") + "]"
	case array:
		return renderObs([]value(v))
	}
	if _, _, ok := intBits(v); ok {
		return fmt.Sprint(v)
	}
	return fmt.Sprintf("<%T>", v)
}

// nondetVar returns the symbolic (or pinned concrete) input called name.
func (i *interpreter) nondetVar(name string, t types.Type) value {
	if i.ps == nil {
		panic(engineError{"vrt input requested outside a path"})
	}
	w := 0
	if ik, ok := basicIntKind(t); ok {
		w = ik.w
	}
	if pin := i.pinMap(); pin != nil {
		v := pin[name]
		if v == nil {
			v = big.NewInt(0)
		}
		if w == 0 {
			return v.Sign() != 0
		}
		ik, _ := basicIntKind(t)
		return mkInt(ik.kind, v.Uint64())
	}
	if v, ok := i.ps.nondet[name]; ok {
		if v.w != w {
			panic(engineError{fmt.Sprintf("vrt input %s requested with widths %d and %d", name, v.w, w)})
		}
		return v
	}
	v := i.tb.Var(name, w)
	i.ps.nondet[name] = v
	return v
}

func extVrtAssert(fr *frame, args []value) value {
	i := fr.i
	ps := i.ps
	label := strArg(args[0])
	sh := i.sh
	if i.warm {
		if c, ok := args[1].(bool); ok && !c {
			panic(pathAbort{kind: "violation-end", info: label})
		}
		return nil
	}
	note := func(sym bool) {
		sh.mu.Lock()
		ls := sh.label(label)
		ls.Paths++
		if sym {
			ls.Symbolic++
		}
		sh.mu.Unlock()
	}
	switch c := args[1].(type) {
	case bool:
		note(false)
		if !c {
			if !i.knownOnly(label, nil) {
				ps.violation(label, "assertion is false on this path", nil)
			}
			panic(pathAbort{kind: "violation-end", info: label})
		}
		return nil
	case *Term:
		tb := i.tb
		c = ps.simplify(c)
		if c.isConst() {
			return extVrtAssert(fr, []value{args[0], c.c != 0})
		}
		if ps.pos < len(ps.prefix) {
			// replayed decision: assertion already examined on an earlier run of this prefix
			v := ps.prefix[ps.pos]
			ps.pos++
			ps.trace = append(ps.trace, v)
			ps.assume(c)
			ps.replayed()
			return nil
		}
		note(true)
		ps.pos++
		nc := tb.Not(c)
		r := i.sol.check(nc)
		switch r {
		case resSat:
			if !i.knownOnly(label, nc) {
				ps.violation(label, "assertion can be false", i.violLit)
			}
		case resUnknown:
			ps.unknown = true
		}
		// continue under the assumption that the assertion holds
		r2 := resSat
		if r != resUnsat {
			r2 = i.sol.check(c)
		}
		if r2 == resUnsat {
			panic(pathAbort{kind: "violation-end", info: label})
		}
		ps.trace = append(ps.trace, 1)
		ps.assume(c)
		return nil
	}
	panic(fmt.Sprintf("vrt.Assert: %T", args[1]))
}

// knownOnly reports whether every violation of label on this path (under the
// extra literal nc) is covered by listed known findings. If some violation is
// outside all listed predicates it leaves i.violLit set to a literal under
// which the solver has such a model and returns false.
func (i *interpreter) knownOnly(label string, nc *Term) bool {
	sh := i.sh
	tb := i.tb
	if i.warm {
		return true
	}
	i.violLit = nc
	var kfs []knownFinding
	for _, k := range sh.known {
		match := k.Label == label
		for _, l := range k.Labels {
			if l == label {
				match = true
			}
		}
		if match && (k.Harness == "" || k.Harness == sh.hname) {
			kfs = append(kfs, k)
		}
	}
	if len(kfs) == 0 {
		return false
	}
	lit := nc
	if lit == nil {
		lit = tb.tt
	}
	outside := lit
	var preds []*Term
	for _, k := range kfs {
		p := i.rawPred(k)
		preds = append(preds, p)
		outside = tb.And(outside, tb.Not(p))
	}
	r := i.sol.check(outside)
	// report which findings match
	for n, k := range kfs {
		if i.sol.check(tb.And(lit, preds[n])) == resSat {
			sh.mu.Lock()
			sh.knownHit[k.ID]++
			sh.mu.Unlock()
		}
	}
	if r == resUnsat {
		return true
	}
	if r == resUnknown {
		i.ps.unknown = true
	}
	i.violLit = outside
	return false
}

// rawPred builds a Bool term from the SMT-LIB text of a known-finding predicate.
func (i *interpreter) rawPred(k knownFinding) *Term {
	tb := i.tb
	var args []*Term
	smt := " " + strings.NewReplacer("(", " ( ", ")", " ) ").Replace(k.SMT) + " "
	smt = strings.ReplaceAll(smt, " ", "  ")
	for name, w := range k.Vars {
		if w == 0 && strings.HasPrefix(name, "kf_") {
			// ghost: latest version, or false when never defined on this path
			rep := "false"
			if v := i.ps.ghostVer[name]; v > 0 {
				t := tb.Var(fmt.Sprintf("%s#%d", name, v), 0)
				args = append(args, t)
				rep = smtName(t.name)
			}
			smt = strings.ReplaceAll(smt, " "+name+" ", " "+rep+" ")
			continue
		}
		args = append(args, tb.Var(name, w))
	}
	return tb.intern(&Term{op: opRaw, w: 0, name: strings.TrimSpace(smt), args: args})
}

// assumeChecked adds c to the path condition and makes sure the path stays
// feasible (the invariant decide relies on). The feasibility check is recorded
// as a decision so that replays of the prefix skip it.
func (i *interpreter) assumeChecked(c *Term) {
	ps := i.ps
	if ps.pos < len(ps.prefix) {
		v := ps.prefix[ps.pos]
		ps.pos++
		ps.trace = append(ps.trace, v)
		ps.assume(c)
		ps.replayed()
		return
	}
	ps.pos++
	ps.trace = append(ps.trace, 1)
	if ps.lastModel != nil {
		if v, ok := c.eval(ps.lastModel, map[int]*big.Int{}); ok && v.Sign() != 0 {
			ps.assume(c)
			return
		}
	}
	ps.assume(c)
	switch i.sol.check() {
	case resUnsat:
		panic(pathAbort{kind: "assume"})
	case resUnknown:
		ps.unknown = true
	case resSat:
		ps.fetchModel()
	}
}
