package main

// Models of hash cores. A hasher object accumulates the written bytes; Sum is
// the real digest (computed by the engine with the same library) when every
// byte is concrete, otherwise an uninterpreted function of the input bytes.
// For every pair of applications of the same algorithm on a path the engine
// asserts  in1 = in2  <=>  out1 = out2  (functional consistency with the real
// digests of concrete inputs, and collision freedom).

import (
	"crypto/sha256"
	"fmt"
	"go/types"
	"hash"
	"math/big"

	"github.com/OneOfOne/xxhash"
	"golang.org/x/crypto/blake2b"
	"golang.org/x/crypto/sha3"
)

type hstate struct {
	alg  string // blake2b | keccak | xxhash64 | sha256
	size int    // output bytes
	key  []value
	seed uint64
	buf  []value
}

type hashApp struct {
	fam string // algorithm + out size + key/seed
	in  []value
	out *Term // may be a constant
}

type sigRec struct{}

func (i *interpreter) hstateOf(p *value) *hstate {
	if i.ps != nil {
		if h, ok := i.ps.hstates[p]; ok {
			return h
		}
	}
	if h, ok := i.hstatesInit[p]; ok {
		return h
	}
	panic(unsupported("hash object not created through a modelled constructor"))
}

func (i *interpreter) newHstate(p *value, h *hstate) {
	if i.ps != nil {
		if i.ps.hstates == nil {
			i.ps.hstates = map[*value]*hstate{}
		}
		i.ps.hstates[p] = h
		return
	}
	if i.hstatesInit == nil {
		i.hstatesInit = map[*value]*hstate{}
	}
	i.hstatesInit[p] = h
}

func allConcreteBytes(b []value) ([]byte, bool) {
	out := make([]byte, len(b))
	for k, x := range b {
		c, ok := x.(uint8)
		if !ok {
			return nil, false
		}
		out[k] = c
	}
	return out, true
}

func nativeDigest(h *hstate, data []byte) []byte {
	switch h.alg {
	case "blake2b":
		key, _ := allConcreteBytes(h.key)
		var hh hash.Hash
		var err error
		hh, err = blake2b.New(h.size, key)
		if err != nil {
			panic(unsupported("blake2b.New: " + err.Error()))
		}
		hh.Write(data)
		return hh.Sum(nil)
	case "keccak":
		hh := sha3.NewLegacyKeccak256()
		hh.Write(data)
		return hh.Sum(nil)
	case "sha256":
		s := sha256.Sum256(data)
		return s[:]
	case "xxhash64":
		x := xxhash.NewS64(h.seed)
		x.Write(data)
		v := x.Sum64()
		out := make([]byte, 8)
		for k := 0; k < 8; k++ {
			out[k] = byte(v >> (56 - 8*uint(k)))
		}
		return out
	}
	panic("nativeDigest: " + h.alg)
}

func (i *interpreter) bytesTerm(b []value) *Term {
	// first byte most significant
	var t *Term
	for _, x := range b {
		bt := i.toTerm(x)
		if t == nil {
			t = bt
		} else {
			t = i.tb.Concat(t, bt)
		}
	}
	return t
}

// digest returns the output bytes (big-endian order of the out term) of hashing h.buf.
func (i *interpreter) digest(h *hstate) []value {
	fam := fmt.Sprintf("%s_%d", h.alg, h.size)
	if h.alg == "xxhash64" {
		fam = fmt.Sprintf("%s_s%d", h.alg, h.seed)
	}
	key, keyConc := allConcreteBytes(h.key)
	if !keyConc {
		panic(unsupported("hash with symbolic key"))
	}
	if len(key) > 0 {
		fam += fmt.Sprintf("_k%x", key)
	}
	data, conc := allConcreteBytes(h.buf)
	out := make([]value, h.size)
	if conc {
		d := nativeDigest(h, data)
		for k := range out {
			out[k] = d[k]
		}
		if i.ps != nil || true {
			app := &hashApp{fam: fam, in: append([]value(nil), h.buf...), out: i.constTermBytes(d)}
			i.recordHashApp(app)
		}
		return out
	}
	if i.ps == nil {
		panic(engineError{"symbolic hash outside a path"})
	}
	n := len(h.buf)
	uf := fmt.Sprintf("H_%s_n%d", fam, n)
	in := i.bytesTerm(h.buf)
	ot := i.tb.UF(uf, 8*h.size, in)
	app := &hashApp{fam: fam, in: append([]value(nil), h.buf...), out: ot}
	i.recordHashApp(app)
	for k := range out {
		hi := 8*(h.size-k) - 1
		out[k] = i.tb.Extract(ot, hi, hi-7)
	}
	return out
}

func (i *interpreter) constTermBytes(d []byte) *Term {
	return i.tb.BigConst(8*len(d), new(big.Int).SetBytes(d))
}

// recordHashApp adds the pairwise axioms between app and all earlier applications.
func (i *interpreter) recordHashApp(app *hashApp) {
	if i.ps == nil {
		// init-time (concrete) application: remember it for every later path
		if len(i.initHashApps) < 4096 {
			i.initHashApps = append(i.initHashApps, app)
		}
		return
	}
	if i.warm {
		return
	}
	i.syncInitApps()
	i.addHashApp(app)
	i.settleAxioms()
}

// syncInitApps loads the applications made by package initialisers (which may run lazily in the
// middle of a path) that the path has not seen yet, so symbolic applications are always related
// to them.
func (i *interpreter) syncInitApps() {
	ps := i.ps
	for ps.initAppsSeen < len(i.initHashApps) {
		a := i.initHashApps[ps.initAppsSeen]
		ps.initAppsSeen++
		i.addHashApp(&hashApp{fam: a.fam, in: a.in, out: i.tb.BigConst(a.out.w, a.out.bigVal())})
	}
}

// addHashApp asserts the pairwise axioms between app and the applications already on the path.
func (i *interpreter) addHashApp(app *hashApp) {
	ps := i.ps
	tb := i.tb
	for _, o := range ps.hashApps {
		if o.fam == app.fam && o.out == app.out {
			return // the same application again (hash-consed): nothing new to relate
		}
	}
	if !app.out.isConst() {
		// idealisation: no input found by the program hashes to the all-zero digest (code that
		// uses the zero hash as "not computed yet" marker relies on the same assumption)
		i.axiom(tb.Not(tb.Eq(app.out, tb.BigConst(app.out.w, new(big.Int)))))
	}
	for _, o := range ps.hashApps {
		if o.fam != app.fam {
			continue
		}
		if o.out.isConst() && app.out.isConst() {
			continue
		}
		outEq := tb.Eq(o.out, app.out)
		if len(o.in) != len(app.in) {
			i.axiom(tb.Not(outEq))
			continue
		}
		ie := i.toTerm(i.bytesEqV(o.in, app.in))
		if ie.isConst() && ie.c != 0 && outEq.isConst() {
			continue
		}
		i.axiom(tb.Eq(ie, outEq))
	}
	ps.hashApps = append(ps.hashApps, app)
}

// axiom adds a modelling assumption to the path condition and ends the path if it makes the
// path condition unsatisfiable (the path was only reachable by violating the assumption, e.g.
// through a hash collision). The feasibility check is recorded like a decision.
func (i *interpreter) axiom(t *Term) {
	if t.isConst() {
		if t.c == 0 {
			panic(pathAbort{kind: "infeasible"})
		}
		return
	}
	// No decision slot is consumed (the set of axioms depends on when package initialisers
	// ran on this worker, which must not shift the decision sequence of replayed prefixes);
	// the feasibility check is therefore repeated on replays.
	i.ps.assume(t)
	i.ps.axiomsPending = true
}

// settleAxioms checks that the path condition is still satisfiable after a batch of axioms.
func (i *interpreter) settleAxioms() {
	ps := i.ps
	if ps == nil || !ps.axiomsPending {
		return
	}
	ps.axiomsPending = false
	switch i.sol.check() {
	case resUnsat:
		panic(pathAbort{kind: "assume", info: "axioms"})
	case resUnknown:
		ps.unknown = true
	case resSat:
		ps.fetchModel()
	}
}

func hashWrite(fr *frame, args []value) value {
	p := fr.i.checkPtr(args[0].(*value))
	h := fr.i.hstateOf(p)
	b := byteSeq(args[1])
	h.buf = append(h.buf, b...)
	return tuple{len(b), iface{}}
}

func hashSum(fr *frame, args []value) value {
	p := fr.i.checkPtr(args[0].(*value))
	h := fr.i.hstateOf(p)
	d := fr.i.digest(h)
	prefix, _ := args[1].([]value)
	return append(append([]value(nil), prefix...), d...)
}

func hashReset(fr *frame, args []value) value {
	p := fr.i.checkPtr(args[0].(*value))
	fr.i.hstateOf(p).buf = nil
	return nil
}

func init() {
	const b2 = "golang.org/x/crypto/blake2b"
	externals[b2+".newDigest"] = func(fr *frame, args []value) value {
		size := int(fr.i.concreteInt(args[0], "blake2b size"))
		key, _ := args[1].([]value)
		if size < 1 || size > 64 || len(key) > 64 {
			panic(unsupported("blake2b.New with invalid size/key"))
		}
		res := fr.fn.Signature.Results()
		dt := deref(res.At(0).Type())
		p := new(value)
		*p = zero(dt)
		fr.i.newHstate(p, &hstate{alg: "blake2b", size: size, key: append([]value(nil), key...)})
		return tuple{p, iface{}}
	}
	externals["(*"+b2+".digest).Write"] = hashWrite
	externals["(*"+b2+".digest).Sum"] = hashSum
	externals["(*"+b2+".digest).Reset"] = hashReset
	externals["(*"+b2+".digest).Size"] = func(fr *frame, args []value) value {
		return fr.i.hstateOf(args[0].(*value)).size
	}
	externals["(*"+b2+".digest).BlockSize"] = func(fr *frame, args []value) value { return 128 }
	sumN := func(n int) externalFn {
		return func(fr *frame, args []value) value {
			h := &hstate{alg: "blake2b", size: n, buf: byteSeq(args[0])}
			return array(fr.i.digest(h))
		}
	}
	externals[b2+".Sum256"] = sumN(32)
	externals[b2+".Sum512"] = sumN(64)

	const s3 = "golang.org/x/crypto/sha3"
	externals[s3+".NewLegacyKeccak256"] = func(fr *frame, args []value) value {
		st := fr.i.prog.ImportedPackage(s3).Type("state").Type()
		p := new(value)
		*p = zero(st)
		fr.i.newHstate(p, &hstate{alg: "keccak", size: 32})
		return iface{t: types.NewPointer(st), v: p}
	}
	externals["(*"+s3+".state).Write"] = hashWrite
	externals["(*"+s3+".state).Sum"] = hashSum
	externals["(*"+s3+".state).Reset"] = hashReset
	externals["(*"+s3+".state).Size"] = func(fr *frame, args []value) value { return 32 }
	externals["(*"+s3+".state).BlockSize"] = func(fr *frame, args []value) value { return 136 }

	const xx = "github.com/OneOfOne/xxhash"
	externals[xx+".NewS64"] = func(fr *frame, args []value) value {
		seed := fr.i.concreteU64(args[0])
		st := fr.i.prog.ImportedPackage(xx).Type("XXHash64").Type()
		p := new(value)
		*p = zero(st)
		fr.i.newHstate(p, &hstate{alg: "xxhash64", size: 8, seed: seed})
		return p
	}
	externals["(*"+xx+".XXHash64).Write"] = hashWrite
	externals["(*"+xx+".XXHash64).WriteString"] = hashWrite
	externals["(*"+xx+".XXHash64).Reset"] = hashReset
	externals["(*"+xx+".XXHash64).Size"] = func(fr *frame, args []value) value { return 8 }
	externals["(*"+xx+".XXHash64).Sum"] = hashSum
	externals["(*"+xx+".XXHash64).Sum64"] = func(fr *frame, args []value) value {
		p := fr.i.checkPtr(args[0].(*value))
		d := fr.i.digest(fr.i.hstateOf(p))
		if bs, ok := allConcreteBytes(d); ok {
			var v uint64
			for _, b := range bs {
				v = v<<8 | uint64(b)
			}
			return v
		}
		return fromTerm(types.Typ[types.Uint64], fr.i.bytesTerm(d))
	}

	externals["crypto/sha256.Sum256"] = func(fr *frame, args []value) value {
		h := &hstate{alg: "sha256", size: 32, buf: byteSeq(args[0])}
		return array(fr.i.digest(h))
	}
}
