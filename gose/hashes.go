package main

// Models of cryptographic cores (filled in below).

type hashApp struct {
	alg  string
	in   []value
	out  *Term
	size int
}

type sigRec struct{}
