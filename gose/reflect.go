package main

// A model of package reflect over the interpreter's own typed values
// (in the manner of x/tools/go/ssa/interp/reflect.go, much extended).
//
// reflect.Value is represented as structure{T, P, A}:
//   T: rtype{t} (or (*value)(nil) for the invalid Value)
//   P: payload (the value itself) when not addressable
//   A: *value address of the variable when addressable, else uintptr(0)
// reflect.Type is iface{rtypeType, rtype{t}}.

import (
	"fmt"
	"go/token"
	"go/types"
	"reflect"
	"strings"
	"unsafe"

	"golang.org/x/tools/go/ssa"
)

var reflectTypesPackage = types.NewPackage("reflect", "reflect")

type opaqueType struct {
	types.Type
	name string
}

func (t *opaqueType) String() string { return t.name }

var rtypeType = makeNamedType("rtype", &opaqueType{nil, "rtype"})
var errorType = makeNamedType("error", &opaqueType{nil, "error"})

func makeNamedType(name string, underlying types.Type) *types.Named {
	obj := types.NewTypeName(token.NoPos, reflectTypesPackage, name, nil)
	return types.NewNamed(obj, underlying, nil)
}

func mkRV(t types.Type, v value) value {
	return structure{rtype{t: t}, v, uintptr(0)}
}

// rvRO reports whether the reflect.Value was reached through an unexported field.
func rvRO(v value) bool {
	rt, ok := v.(structure)[0].(rtype)
	return ok && rt.ro
}

// rvWithRO marks the reflect.Value res read-only when ro is set.
func rvWithRO(res value, ro bool) value {
	if ro {
		s := res.(structure)
		if rt, ok := s[0].(rtype); ok {
			s[0] = rtype{t: rt.t, ro: true}
		}
	}
	return res
}

func mkRVAddr(t types.Type, addr *value) value {
	return structure{rtype{t: t}, nil, addr}
}

func invalidRV() value {
	return structure{(*value)(nil), unsafe.Pointer(nil), uintptr(0)}
}

func rvValid(v value) bool {
	_, ok := v.(structure)[0].(rtype)
	return ok
}

func rvType(fr *frame, v value) types.Type {
	rt, ok := v.(structure)[0].(rtype)
	if !ok {
		panic(targetPanic{fr.i.runtimeError("reflect: call of method on zero Value")})
	}
	return rt.t
}

func rvAddr(v value) *value {
	a, _ := v.(structure)[2].(*value)
	return a
}

// rvGet returns the current payload of a reflect.Value.
func rvGet(fr *frame, v value) value {
	s := v.(structure)
	if a, ok := s[2].(*value); ok && a != nil {
		return load(rvType(fr, v), a)
	}
	return s[1]
}

func mkRType(t types.Type) value {
	if t == nil {
		return iface{}
	}
	return iface{rtypeType, rtype{t: t}}
}

func argRType(v value) types.Type {
	it := v.(iface)
	if it.t == nil {
		return nil
	}
	return it.v.(rtype).t
}

func reflectKind(t types.Type) reflect.Kind {
	switch t := t.(type) {
	case *types.Named, *types.Alias:
		return reflectKind(t.Underlying())
	case *types.Basic:
		switch t.Kind() {
		case types.Bool:
			return reflect.Bool
		case types.Int:
			return reflect.Int
		case types.Int8:
			return reflect.Int8
		case types.Int16:
			return reflect.Int16
		case types.Int32:
			return reflect.Int32
		case types.Int64:
			return reflect.Int64
		case types.Uint:
			return reflect.Uint
		case types.Uint8:
			return reflect.Uint8
		case types.Uint16:
			return reflect.Uint16
		case types.Uint32:
			return reflect.Uint32
		case types.Uint64:
			return reflect.Uint64
		case types.Uintptr:
			return reflect.Uintptr
		case types.Float32:
			return reflect.Float32
		case types.Float64:
			return reflect.Float64
		case types.Complex64:
			return reflect.Complex64
		case types.Complex128:
			return reflect.Complex128
		case types.String:
			return reflect.String
		case types.UnsafePointer:
			return reflect.UnsafePointer
		}
	case *types.Array:
		return reflect.Array
	case *types.Chan:
		return reflect.Chan
	case *types.Signature:
		return reflect.Func
	case *types.Interface:
		return reflect.Interface
	case *types.Map:
		return reflect.Map
	case *types.Pointer:
		return reflect.Ptr
	case *types.Slice:
		return reflect.Slice
	case *types.Struct:
		return reflect.Struct
	case *opaqueType:
		return reflect.Struct
	}
	panic(fmt.Sprint("unexpected type: ", t))
}

func kindV(k reflect.Kind) value { return uint(k) }

func typeString(t types.Type) string {
	return types.TypeString(t, func(p *types.Package) string { return p.Name() })
}

// rtypeMethod implements the methods of reflect.Type.
func rtypeMethod(name string) *nativeFunc {
	return &nativeFunc{name: "reflect.rtype." + name, f: func(fr *frame, args []value) value {
		t := args[0].(rtype).t
		i := fr.i
		switch name {
		case "Kind":
			return kindV(reflectKind(t))
		case "Elem":
			switch u := t.Underlying().(type) {
			case *types.Pointer:
				return mkRType(u.Elem())
			case *types.Slice:
				return mkRType(u.Elem())
			case *types.Array:
				return mkRType(u.Elem())
			case *types.Map:
				return mkRType(u.Elem())
			case *types.Chan:
				return mkRType(u.Elem())
			}
			panic(targetPanic{i.runtimeError("reflect: Elem of invalid type " + t.String())})
		case "Key":
			return mkRType(t.Underlying().(*types.Map).Key())
		case "Len":
			return int(t.Underlying().(*types.Array).Len())
		case "NumField":
			st, ok := t.Underlying().(*types.Struct)
			if !ok {
				panic(targetPanic{i.runtimeError("reflect: NumField of non-struct type " + t.String())})
			}
			return st.NumFields()
		case "Field":
			st := t.Underlying().(*types.Struct)
			return i.structField(st, int(asInt64(args[1])))
		case "FieldByName":
			st := t.Underlying().(*types.Struct)
			nm := strArg(args[1])
			for k := 0; k < st.NumFields(); k++ {
				if st.Field(k).Name() == nm {
					return tuple{i.structField(st, k), true}
				}
			}
			return tuple{zero(i.sh.reflectStructField), false}
		case "Name":
			switch n := t.(type) {
			case *types.Named:
				return n.Obj().Name()
			case *types.Alias:
				return n.Obj().Name()
			case *types.Basic:
				return n.Name()
			}
			return ""
		case "PkgPath":
			if n, ok := t.(*types.Named); ok && n.Obj().Pkg() != nil {
				return n.Obj().Pkg().Path()
			}
			return ""
		case "String":
			return typeString(t)
		case "Size":
			return uintptr(i.sh.sizes.Sizeof(t))
		case "Bits":
			return int(i.sh.sizes.Sizeof(t)) * 8
		case "Align", "FieldAlign":
			return int(i.sh.sizes.Alignof(t))
		case "Comparable":
			return types.Comparable(t)
		case "Implements":
			u := argRType(args[1])
			return types.Implements(t, u.Underlying().(*types.Interface))
		case "AssignableTo":
			return types.AssignableTo(t, argRType(args[1]))
		case "ConvertibleTo":
			return types.ConvertibleTo(t, argRType(args[1]))
		case "NumMethod":
			return i.prog.MethodSets.MethodSet(t).Len()
		case "NumIn":
			return t.Underlying().(*types.Signature).Params().Len()
		case "NumOut":
			return t.Underlying().(*types.Signature).Results().Len()
		case "In":
			return mkRType(t.Underlying().(*types.Signature).Params().At(int(asInt64(args[1]))).Type())
		case "Out":
			return mkRType(t.Underlying().(*types.Signature).Results().At(int(asInt64(args[1]))).Type())
		case "IsVariadic":
			return t.Underlying().(*types.Signature).Variadic()
		case "MethodByName":
			nm := strArg(args[1])
			ms := i.prog.MethodSets.MethodSet(t)
			for k := 0; k < ms.Len(); k++ {
				if ms.At(k).Obj().Name() == nm {
					m := zero(i.sh.reflectMethod).(structure)
					m[0] = nm
					return tuple{m, true}
				}
			}
			return tuple{zero(i.sh.reflectMethod), false}
		}
		panic(unsupported("reflect.Type." + name))
	}}
}

func (i *interpreter) structField(st *types.Struct, k int) value {
	f := st.Field(k)
	sf := zero(i.sh.reflectStructField).(structure)
	// StructField{Name, PkgPath string; Type Type; Tag StructTag; Offset uintptr; Index []int; Anonymous bool}
	sf[0] = f.Name()
	if !f.Exported() && f.Pkg() != nil {
		sf[1] = f.Pkg().Path()
	}
	sf[2] = mkRType(f.Type())
	sf[3] = st.Tag(k)
	sf[5] = []value{k}
	sf[6] = f.Anonymous()
	return sf
}

// wrapFor adapts payload v of static type src for storage in a variable of type dst.
func wrapFor(dst, src types.Type, v value) value {
	if _, ok := dst.Underlying().(*types.Interface); ok {
		if _, ok := src.Underlying().(*types.Interface); ok {
			return v
		}
		return iface{t: src, v: v}
	}
	return v
}

func init() {
	R := func(name string, f externalFn) { externals[name] = f }

	R("reflect.TypeOf", func(fr *frame, args []value) value {
		return mkRType(args[0].(iface).t)
	})
	R("reflect.ValueOf", func(fr *frame, args []value) value {
		it := args[0].(iface)
		if it.t == nil {
			return invalidRV()
		}
		return mkRV(it.t, it.v)
	})
	R("reflect.New", func(fr *frame, args []value) value {
		t := argRType(args[0])
		p := new(value)
		*p = zero(t)
		return mkRV(types.NewPointer(t), p)
	})
	R("reflect.Zero", func(fr *frame, args []value) value {
		t := argRType(args[0])
		return mkRV(t, zero(t))
	})
	R("reflect.PointerTo", func(fr *frame, args []value) value { return mkRType(types.NewPointer(argRType(args[0]))) })
	R("reflect.PtrTo", func(fr *frame, args []value) value { return mkRType(types.NewPointer(argRType(args[0]))) })
	R("reflect.SliceOf", func(fr *frame, args []value) value { return mkRType(types.NewSlice(argRType(args[0]))) })
	R("reflect.Indirect", func(fr *frame, args []value) value {
		if !rvValid(args[0]) {
			return args[0]
		}
		t := rvType(fr, args[0])
		if _, ok := t.Underlying().(*types.Pointer); !ok {
			return args[0]
		}
		return rvElem(fr, args[0])
	})
	R("reflect.MakeSlice", func(fr *frame, args []value) value {
		t := argRType(args[0])
		l := fr.i.concreteLen(args[1], "reflect.MakeSlice len")
		c := fr.i.concreteLen(args[2], "reflect.MakeSlice cap")
		if l < 0 || c < l {
			panic(targetPanic{fr.i.runtimeError("reflect.MakeSlice: len/cap out of range")})
		}
		fr.i.alloc(c)
		el := t.Underlying().(*types.Slice).Elem()
		s := make([]value, c)
		for k := range s {
			s[k] = zero(el)
		}
		return mkRV(t, s[:l])
	})
	R("reflect.MakeMap", func(fr *frame, args []value) value {
		t := argRType(args[0])
		return mkRV(t, makeMap(t.Underlying().(*types.Map).Key()))
	})
	R("reflect.MakeMapWithSize", func(fr *frame, args []value) value {
		t := argRType(args[0])
		return mkRV(t, makeMap(t.Underlying().(*types.Map).Key()))
	})
	R("reflect.Append", func(fr *frame, args []value) value {
		t := rvType(fr, args[0])
		s := rvGet(fr, args[0]).([]value)
		el := t.Underlying().(*types.Slice).Elem()
		for _, x := range args[1].([]value) {
			s = append(s, wrapFor(el, rvType(fr, x), rvGet(fr, x)))
		}
		return mkRV(t, s)
	})
	R("reflect.AppendSlice", func(fr *frame, args []value) value {
		t := rvType(fr, args[0])
		s := rvGet(fr, args[0]).([]value)
		s = append(s, rvGet(fr, args[1]).([]value)...)
		return mkRV(t, s)
	})
	R("reflect.Copy", func(fr *frame, args []value) value {
		dst := rvGet(fr, args[0])
		src := rvGet(fr, args[1])
		var d []value
		switch x := dst.(type) {
		case []value:
			d = x
		case array:
			if a := rvAddr(args[0]); a != nil {
				d = []value((*a).(array))
			} else {
				d = []value(x)
			}
		}
		return copy(d, byteSeqOrSlice(src))
	})
	R("reflect.DeepEqual", func(fr *frame, args []value) value {
		x, y := args[0].(iface), args[1].(iface)
		if x.t == nil || y.t == nil {
			return x.t == nil && y.t == nil
		}
		if !types.Identical(x.t, y.t) {
			return false
		}
		return fr.i.truth(fr.i.deepEqual(x.t, x.v, y.v, 0))
	})
	R("reflect.Swapper", func(fr *frame, args []value) value {
		s := args[0].(iface).v.([]value)
		return &nativeFunc{name: "swapper", f: func(fr *frame, a []value) value {
			x, y := int(asInt64(a[0])), int(asInt64(a[1]))
			s[x], s[y] = s[y], s[x]
			return nil
		}}
	})
	R("internal/reflectlite.Swapper", externals["reflect.Swapper"])

	V := func(name string, f externalFn) { externals["(reflect.Value)."+name] = f }

	V("IsValid", func(fr *frame, args []value) value { return rvValid(args[0]) })
	V("Kind", func(fr *frame, args []value) value {
		if !rvValid(args[0]) {
			return kindV(reflect.Invalid)
		}
		return kindV(reflectKind(rvType(fr, args[0])))
	})
	V("Type", func(fr *frame, args []value) value { return mkRType(rvType(fr, args[0])) })
	V("Elem", func(fr *frame, args []value) value { return rvWithRO(rvElem(fr, args[0]), rvRO(args[0])) })
	V("Interface", func(fr *frame, args []value) value { return rvInterface(fr, args[0]) })
	V("CanInterface", func(fr *frame, args []value) value { return rvValid(args[0]) && !rvRO(args[0]) })
	V("CanAddr", func(fr *frame, args []value) value { return rvAddr(args[0]) != nil })
	V("CanSet", func(fr *frame, args []value) value { return rvAddr(args[0]) != nil && !rvRO(args[0]) })
	V("Addr", func(fr *frame, args []value) value {
		a := rvAddr(args[0])
		if a == nil {
			panic(targetPanic{fr.i.runtimeError("reflect.Value.Addr of unaddressable value")})
		}
		return mkRV(types.NewPointer(rvType(fr, args[0])), a)
	})
	V("UnsafeAddr", func(fr *frame, args []value) value { return uintptr(unsafe.Pointer(rvAddr(args[0]))) })
	V("Pointer", func(fr *frame, args []value) value { return rvPointer(fr, args[0]) })
	V("UnsafePointer", func(fr *frame, args []value) value {
		switch v := rvGet(fr, args[0]).(type) {
		case *value:
			return unsafe.Pointer(v)
		}
		return unsafe.Pointer(nil)
	})
	V("IsNil", func(fr *frame, args []value) value {
		switch x := rvGet(fr, args[0]).(type) {
		case *value:
			return x == nil
		case *gchan:
			return x == nil
		case *gmap:
			return x == nil
		case []value:
			return x == nil
		case iface:
			return x.t == nil
		case *ssa.Function:
			return x == nil
		case *closure:
			return x == nil
		case *nativeFunc:
			return x == nil
		case unsafe.Pointer:
			return x == nil
		}
		panic(targetPanic{fr.i.runtimeError(fmt.Sprintf("reflect: call of reflect.Value.IsNil on %s Value", rvType(fr, args[0])))})
	})
	V("IsZero", func(fr *frame, args []value) value {
		t := rvType(fr, args[0])
		return fr.i.isZero(t, rvGet(fr, args[0]))
	})
	V("NumField", func(fr *frame, args []value) value {
		return rvType(fr, args[0]).Underlying().(*types.Struct).NumFields()
	})
	V("Field", func(fr *frame, args []value) value {
		t := rvType(fr, args[0])
		st, ok := t.Underlying().(*types.Struct)
		if !ok {
			panic(targetPanic{fr.i.runtimeError("reflect: call of reflect.Value.Field on " + t.String() + " Value")})
		}
		k := int(asInt64(args[1]))
		ft := st.Field(k).Type()
		ro := rvRO(args[0]) || !st.Field(k).Exported()
		if a := rvAddr(args[0]); a != nil {
			return rvWithRO(mkRVAddr(ft, &(*a).(structure)[k]), ro)
		}
		return rvWithRO(mkRV(ft, rvGet(fr, args[0]).(structure)[k]), ro)
	})
	V("FieldByName", func(fr *frame, args []value) value {
		t := rvType(fr, args[0])
		st := t.Underlying().(*types.Struct)
		nm := strArg(args[1])
		for k := 0; k < st.NumFields(); k++ {
			if st.Field(k).Name() == nm {
				return externals["(reflect.Value).Field"](fr, []value{args[0], k})
			}
		}
		return invalidRV()
	})
	V("Len", func(fr *frame, args []value) value {
		switch v := rvGet(fr, args[0]).(type) {
		case string:
			return len(v)
		case symstr:
			return len(v)
		case array:
			return len(v)
		case []value:
			return len(v)
		case *gmap:
			return v.len()
		case *gchan:
			return len(v.buf)
		}
		panic(targetPanic{fr.i.runtimeError("reflect: call of reflect.Value.Len on " + rvType(fr, args[0]).String() + " Value")})
	})
	V("Cap", func(fr *frame, args []value) value {
		switch v := rvGet(fr, args[0]).(type) {
		case array:
			return len(v)
		case []value:
			return cap(v)
		}
		panic(unsupported("reflect.Value.Cap"))
	})
	V("Index", func(fr *frame, args []value) value {
		t := rvType(fr, args[0])
		k := int(fr.i.concreteInt(args[1], "reflect Index"))
		switch u := t.Underlying().(type) {
		case *types.Slice:
			s := rvGet(fr, args[0]).([]value)
			if k < 0 || k >= len(s) {
				panic(targetPanic{fr.i.runtimeError("reflect: slice index out of range")})
			}
			return mkRVAddr(u.Elem(), &s[k])
		case *types.Array:
			if a := rvAddr(args[0]); a != nil {
				arr := (*a).(array)
				if k < 0 || k >= len(arr) {
					panic(targetPanic{fr.i.runtimeError("reflect: array index out of range")})
				}
				return mkRVAddr(u.Elem(), &arr[k])
			}
			arr := rvGet(fr, args[0]).(array)
			if k < 0 || k >= len(arr) {
				panic(targetPanic{fr.i.runtimeError("reflect: array index out of range")})
			}
			return mkRV(u.Elem(), arr[k])
		case *types.Basic:
			b := strBytes(rvGet(fr, args[0]))
			if k < 0 || k >= len(b) {
				panic(targetPanic{fr.i.runtimeError("reflect: string index out of range")})
			}
			return mkRV(types.Typ[types.Uint8], b[k])
		}
		panic(unsupported("reflect.Value.Index on " + t.String()))
	})
	V("Slice", func(fr *frame, args []value) value {
		t := rvType(fr, args[0])
		lo := int(fr.i.concreteInt(args[1], "reflect Slice"))
		hi := int(fr.i.concreteInt(args[2], "reflect Slice"))
		switch x := rvGet(fr, args[0]).(type) {
		case []value:
			if lo < 0 || hi < lo || hi > cap(x) {
				panic(targetPanic{fr.i.runtimeError("reflect.Value.Slice: slice index out of bounds")})
			}
			return mkRV(t, x[lo:hi])
		case string:
			return mkRV(t, x[lo:hi])
		case symstr:
			return mkRV(t, normStr(x[lo:hi]))
		case array:
			a := rvAddr(args[0])
			if a == nil {
				panic(targetPanic{fr.i.runtimeError("reflect.Value.Slice: slice of unaddressable array")})
			}
			return mkRV(types.NewSlice(t.Underlying().(*types.Array).Elem()), []value((*a).(array))[lo:hi])
		}
		panic(unsupported("reflect.Value.Slice"))
	})
	V("Bool", func(fr *frame, args []value) value { return rvGet(fr, args[0]) })
	V("String", func(fr *frame, args []value) value {
		if !rvValid(args[0]) {
			return "<invalid Value>"
		}
		v := rvGet(fr, args[0])
		switch v.(type) {
		case string, symstr:
			return v
		}
		return "<" + typeString(rvType(fr, args[0])) + " Value>"
	})
	V("Int", func(fr *frame, args []value) value {
		t := rvType(fr, args[0])
		return conv(fr.i, types.Typ[types.Int64], t, rvGet(fr, args[0]))
	})
	V("Uint", func(fr *frame, args []value) value {
		t := rvType(fr, args[0])
		return conv(fr.i, types.Typ[types.Uint64], t, rvGet(fr, args[0]))
	})
	V("Float", func(fr *frame, args []value) value {
		t := rvType(fr, args[0])
		return conv(fr.i, types.Typ[types.Float64], t, rvGet(fr, args[0]))
	})
	V("Bytes", func(fr *frame, args []value) value {
		switch x := rvGet(fr, args[0]).(type) {
		case []value:
			return x
		case array:
			if a := rvAddr(args[0]); a != nil {
				return []value((*a).(array))
			}
			return append([]value(nil), x...)
		}
		panic(unsupported("reflect.Value.Bytes"))
	})
	V("Set", func(fr *frame, args []value) value {
		a := rvAddr(args[0])
		if a == nil {
			panic(targetPanic{fr.i.runtimeError("reflect: reflect.Value.Set using unaddressable value")})
		}
		dt := rvType(fr, args[0])
		st := rvType(fr, args[1])
		if !types.AssignableTo(st, dt) {
			panic(targetPanic{fr.i.runtimeError("reflect.Set: value of type " + st.String() + " is not assignable to type " + dt.String())})
		}
		store(dt, a, wrapFor(dt, st, rvGet(fr, args[1])))
		return nil
	})
	setScalar := func(src types.Type) externalFn {
		return func(fr *frame, args []value) value {
			a := rvAddr(args[0])
			if a == nil {
				panic(targetPanic{fr.i.runtimeError("reflect: Set using unaddressable value")})
			}
			dt := rvType(fr, args[0])
			*a = conv(fr.i, dt, src, args[1])
			return nil
		}
	}
	V("SetInt", setScalar(types.Typ[types.Int64]))
	V("SetUint", setScalar(types.Typ[types.Uint64]))
	V("SetFloat", setScalar(types.Typ[types.Float64]))
	V("SetBool", func(fr *frame, args []value) value { *rvAddr(args[0]) = args[1]; return nil })
	V("SetString", func(fr *frame, args []value) value { *rvAddr(args[0]) = args[1]; return nil })
	V("SetBytes", func(fr *frame, args []value) value { *rvAddr(args[0]) = args[1]; return nil })
	V("SetLen", func(fr *frame, args []value) value {
		a := rvAddr(args[0])
		s := (*a).([]value)
		*a = s[:int(asInt64(args[1]))]
		return nil
	})
	V("SetZero", func(fr *frame, args []value) value {
		a := rvAddr(args[0])
		t := rvType(fr, args[0])
		store(t, a, zero(t))
		return nil
	})
	V("Convert", func(fr *frame, args []value) value {
		st := rvType(fr, args[0])
		dt := argRType(args[1])
		v := rvGet(fr, args[0])
		if _, ok := dt.Underlying().(*types.Interface); ok {
			if _, ok := st.Underlying().(*types.Interface); ok {
				return mkRV(dt, v)
			}
			return mkRV(dt, iface{t: st, v: v})
		}
		if types.Identical(st.Underlying(), dt.Underlying()) {
			return mkRV(dt, v)
		}
		// pointer to identical underlying
		if sp, ok := st.Underlying().(*types.Pointer); ok {
			if dp, ok := dt.Underlying().(*types.Pointer); ok && types.Identical(sp.Elem().Underlying(), dp.Elem().Underlying()) {
				return mkRV(dt, v)
			}
		}
		return mkRV(dt, conv(fr.i, dt, st, v))
	})
	V("MapKeys", func(fr *frame, args []value) value {
		t := rvType(fr, args[0])
		kt := t.Underlying().(*types.Map).Key()
		m := rvGet(fr, args[0]).(*gmap)
		var keys []value
		if m != nil {
			for _, e := range m.entries {
				keys = append(keys, mkRV(kt, e.key))
			}
		}
		return keys
	})
	V("MapIndex", func(fr *frame, args []value) value {
		t := rvType(fr, args[0])
		mt := t.Underlying().(*types.Map)
		m := rvGet(fr, args[0]).(*gmap)
		k := wrapFor(mt.Key(), rvType(fr, args[1]), rvGet(fr, args[1]))
		if e := fr.i.mapFind(m, k); e != nil {
			return mkRV(mt.Elem(), e.val)
		}
		return invalidRV()
	})
	V("SetMapIndex", func(fr *frame, args []value) value {
		t := rvType(fr, args[0])
		mt := t.Underlying().(*types.Map)
		m := rvGet(fr, args[0]).(*gmap)
		k := wrapFor(mt.Key(), rvType(fr, args[1]), rvGet(fr, args[1]))
		if !rvValid(args[2]) {
			fr.i.mapDelete(m, k)
			return nil
		}
		fr.i.mapInsert(m, k, wrapFor(mt.Elem(), rvType(fr, args[2]), rvGet(fr, args[2])))
		return nil
	})
	V("MapRange", func(fr *frame, args []value) value {
		t := rvType(fr, args[0])
		m := rvGet(fr, args[0]).(*gmap)
		it := &rmapIter{mt: t.Underlying().(*types.Map), pos: -1}
		if m != nil {
			it.snap = append(it.snap, m.entries...)
		}
		// *reflect.MapIter: allocate the real struct and hide our iterator in its first field
		cell := zero(fr.i.sh.reflectMapIter)
		cell.(structure)[0] = structure{it, nil, uintptr(0)}
		p := new(value)
		*p = cell
		return p
	})
	M := func(name string, f externalFn) { externals["(*reflect.MapIter)."+name] = f }
	getIt := func(fr *frame, v value) *rmapIter {
		p := fr.i.checkPtr(v.(*value))
		return (*p).(structure)[0].(structure)[0].(*rmapIter)
	}
	M("Next", func(fr *frame, args []value) value {
		it := getIt(fr, args[0])
		for {
			it.pos++
			if it.pos >= len(it.snap) {
				return false
			}
			if !it.snap[it.pos].deleted {
				return true
			}
		}
	})
	M("Key", func(fr *frame, args []value) value {
		it := getIt(fr, args[0])
		return mkRV(it.mt.Key(), it.snap[it.pos].key)
	})
	M("Value", func(fr *frame, args []value) value {
		it := getIt(fr, args[0])
		return mkRV(it.mt.Elem(), it.snap[it.pos].val)
	})
	V("NumMethod", func(fr *frame, args []value) value {
		return fr.i.prog.MethodSets.MethodSet(rvType(fr, args[0])).Len()
	})
	V("MethodByName", func(fr *frame, args []value) value {
		t := rvType(fr, args[0])
		nm := strArg(args[1])
		recv := rvGet(fr, args[0])
		dyn := t
		if it, ok := recv.(iface); ok {
			if it.t == nil {
				return invalidRV()
			}
			dyn, recv = it.t, it.v
		}
		ms := fr.i.prog.MethodSets.MethodSet(dyn)
		for k := 0; k < ms.Len(); k++ {
			sel := ms.At(k)
			if sel.Obj().Name() == nm && sel.Obj().Exported() {
				fn := fr.i.prog.MethodValue(sel)
				sig := sel.Type().(*types.Signature)
				bound := &closureBound{fn: fn, recv: recv}
				return mkRV(types.NewSignatureType(nil, nil, nil, sig.Params(), sig.Results(), sig.Variadic()), bound)
			}
		}
		return invalidRV()
	})
	V("Call", func(fr *frame, args []value) value {
		t := rvType(fr, args[0])
		sig := t.Underlying().(*types.Signature)
		fnv := rvGet(fr, args[0])
		var cargs []value
		in := args[1].([]value)
		for k, a := range in {
			pt := sig.Params().At(k).Type()
			cargs = append(cargs, wrapFor(pt, rvType(fr, a), rvGet(fr, a)))
		}
		var res value
		if b, ok := fnv.(*closureBound); ok {
			res = call(fr.i, fr, token.NoPos, b.fn, append([]value{b.recv}, cargs...))
		} else {
			res = call(fr.i, fr, token.NoPos, fnv, cargs)
		}
		var out []value
		switch sig.Results().Len() {
		case 0:
		case 1:
			out = append(out, mkRV(sig.Results().At(0).Type(), res))
		default:
			for k, r := range res.(tuple) {
				out = append(out, mkRV(sig.Results().At(k).Type(), r))
			}
		}
		return out
	})
	V("Comparable", func(fr *frame, args []value) value { return types.Comparable(rvType(fr, args[0])) })
	V("OverflowUint", func(fr *frame, args []value) value { return false })
	V("OverflowInt", func(fr *frame, args []value) value { return false })
}

type closureBound struct {
	fn   *ssa.Function
	recv value
}

type rmapIter struct {
	mt   *types.Map
	snap []*mentry
	pos  int
}

func byteSeqOrSlice(v value) []value {
	switch v := v.(type) {
	case []value:
		return v
	case array:
		return []value(v)
	case string, symstr:
		return strBytes(v)
	}
	panic(fmt.Sprintf("byteSeqOrSlice: %T", v))
}

func rvElem(fr *frame, v value) value {
	t := rvType(fr, v)
	switch u := t.Underlying().(type) {
	case *types.Pointer:
		p := rvGet(fr, v).(*value)
		if p == nil {
			return invalidRV()
		}
		return mkRVAddr(u.Elem(), p)
	case *types.Interface:
		it := rvGet(fr, v).(iface)
		if it.t == nil {
			return invalidRV()
		}
		return mkRV(it.t, it.v)
	}
	panic(targetPanic{fr.i.runtimeError("reflect: call of reflect.Value.Elem on " + t.String() + " Value")})
}

func rvInterface(fr *frame, v value) value {
	t := rvType(fr, v)
	p := rvGet(fr, v)
	if _, ok := t.Underlying().(*types.Interface); ok {
		return p
	}
	return iface{t: t, v: p}
}

func rvPointer(fr *frame, v value) value {
	switch x := rvGet(fr, v).(type) {
	case *value:
		return uintptr(unsafe.Pointer(x))
	case []value:
		if cap(x) > 0 {
			return uintptr(unsafe.Pointer(&x[:1][0]))
		}
		return uintptr(0)
	case *gmap:
		return uintptr(unsafe.Pointer(x))
	case *gchan:
		return uintptr(unsafe.Pointer(x))
	case *ssa.Function:
		return uintptr(unsafe.Pointer(x))
	case *closure:
		return uintptr(unsafe.Pointer(x))
	}
	panic(unsupported("reflect.Value.Pointer"))
}

func (i *interpreter) isZero(t types.Type, v value) value {
	switch u := t.Underlying().(type) {
	case *types.Basic:
		if u.Info()&types.IsString != 0 {
			return strLen(v) == 0
		}
		if u.Kind() == types.UnsafePointer {
			return v.(unsafe.Pointer) == nil
		}
		return i.equalsV(t, v, zero(t))
	case *types.Pointer:
		return v.(*value) == nil
	case *types.Slice:
		return v.([]value) == nil
	case *types.Map:
		return v.(*gmap) == nil
	case *types.Chan:
		return v.(*gchan) == nil
	case *types.Interface:
		return v.(iface).t == nil
	case *types.Signature:
		return isNilValue(v)
	case *types.Array:
		var acc value = true
		for _, e := range v.(array) {
			acc = i.andV(acc, i.isZero(u.Elem(), e))
			if acc == false {
				return false
			}
		}
		return acc
	case *types.Struct:
		var acc value = true
		for k, e := range v.(structure) {
			acc = i.andV(acc, i.isZero(u.Field(k).Type(), e))
			if acc == false {
				return false
			}
		}
		return acc
	}
	panic(unsupported("isZero " + t.String()))
}

// deepEqual follows reflect.DeepEqual on interpreter values.
func (i *interpreter) deepEqual(t types.Type, x, y value, depth int) value {
	if depth > 200 {
		panic(unsupported("DeepEqual: recursion too deep (cyclic value?)"))
	}
	switch u := t.Underlying().(type) {
	case *types.Basic:
		return i.equalsV(t, x, y)
	case *types.Pointer:
		px, py := x.(*value), y.(*value)
		if px == py {
			return true
		}
		if px == nil || py == nil {
			return false
		}
		return i.deepEqual(u.Elem(), load(u.Elem(), px), load(u.Elem(), py), depth+1)
	case *types.Slice:
		sx, sy := x.([]value), y.([]value)
		if (sx == nil) != (sy == nil) || len(sx) != len(sy) {
			return false
		}
		var acc value = true
		for k := range sx {
			acc = i.andV(acc, i.deepEqual(u.Elem(), sx[k], sy[k], depth+1))
			if acc == false {
				return false
			}
		}
		return acc
	case *types.Array:
		ax, ay := x.(array), y.(array)
		var acc value = true
		for k := range ax {
			acc = i.andV(acc, i.deepEqual(u.Elem(), ax[k], ay[k], depth+1))
			if acc == false {
				return false
			}
		}
		return acc
	case *types.Struct:
		sx, sy := x.(structure), y.(structure)
		var acc value = true
		for k := range sx {
			acc = i.andV(acc, i.deepEqual(u.Field(k).Type(), sx[k], sy[k], depth+1))
			if acc == false {
				return false
			}
		}
		return acc
	case *types.Interface:
		ix, iy := x.(iface), y.(iface)
		if ix.t == nil || iy.t == nil {
			return ix.t == nil && iy.t == nil
		}
		if !types.Identical(ix.t, iy.t) {
			return false
		}
		return i.deepEqual(ix.t, ix.v, iy.v, depth+1)
	case *types.Map:
		mx, my := x.(*gmap), y.(*gmap)
		if (mx == nil) != (my == nil) || mx.len() != my.len() {
			return false
		}
		if mx == my {
			return true
		}
		var acc value = true
		for _, e := range mx.entries {
			o := i.mapFind(my, e.key)
			if o == nil {
				return false
			}
			acc = i.andV(acc, i.deepEqual(u.Elem(), e.val, o.val, depth+1))
			if acc == false {
				return false
			}
		}
		return acc
	case *types.Signature:
		return isNilValue(x) && isNilValue(y)
	case *types.Chan:
		return x.(*gchan) == y.(*gchan)
	}
	if strings.Contains(t.String(), "rtype") {
		return types.Identical(x.(rtype).t, y.(rtype).t)
	}
	panic(unsupported("DeepEqual on " + t.String()))
}
