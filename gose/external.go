package main

// Intrinsics: functions the engine models instead of interpreting.
// Every entry here is part of the trusted base and is listed in the evidence.

import (
	"fmt"
	"go/token"
	"go/types"
	"math"
	"strings"

	"golang.org/x/tools/go/ssa"
)

type externalFn func(fr *frame, args []value) value

var externals = map[string]externalFn{}

// stubPackages: every function/method of these packages returns zero values.
var stubPackages = []string{
	"github.com/ChainSafe/gossamer/internal/log",
	"github.com/prometheus/client_golang/prometheus",
	"github.com/prometheus/client_golang/prometheus/promauto",
	"github.com/ChainSafe/gossamer/internal/metrics",
}

var stubType = makeNamedType("gosestub", types.NewStruct(nil, nil))

func (sh *shared) external(fn *ssa.Function) externalFn {
	if v, ok := sh.extCache.Load(fn); ok {
		if v == nil {
			return nil
		}
		return v.(externalFn)
	}
	var ext externalFn
	name := fn.String()
	if e, ok := externals[name]; ok {
		ext = e
	} else if o := fn.Origin(); o != nil {
		// generic instance: try the origin's name
		if e, ok := externals[o.String()]; ok {
			ext = e
		}
	}
	if ext == nil && fn.Pkg != nil {
		p := fn.Pkg.Pkg.Path()
		for _, sp := range stubPackages {
			if p == sp {
				sig := fn.Signature
				ext = func(fr *frame, args []value) value { return zeroStubResults(sig) }
			}
		}
	}
	if ext == nil && fn.Pkg == nil && fn.Signature.Recv() != nil {
		// methods of stub-package types reached through wrappers
		if n, ok := derefNamed(fn.Signature.Recv().Type()); ok && n.Obj().Pkg() != nil {
			for _, sp := range stubPackages {
				if n.Obj().Pkg().Path() == sp {
					sig := fn.Signature
					ext = func(fr *frame, args []value) value { return zeroStubResults(sig) }
				}
			}
		}
	}
	if ext == nil {
		sh.extCache.Store(fn, nil)
		return nil
	}
	sh.extCache.Store(fn, ext)
	return ext
}

func derefNamed(t types.Type) (*types.Named, bool) {
	if p, ok := t.(*types.Pointer); ok {
		t = p.Elem()
	}
	n, ok := t.(*types.Named)
	return n, ok
}

func zeroStub(t types.Type) value {
	if it, ok := t.Underlying().(*types.Interface); ok {
		if types.Identical(t, types.Universe.Lookup("error").Type()) || it.NumMethods() == 0 {
			return iface{}
		}
		return iface{t: stubType, v: structure{}}
	}
	return zero(t)
}

func zeroStubResults(sig *types.Signature) value {
	res := sig.Results()
	switch res.Len() {
	case 0:
		return nil
	case 1:
		return zeroStub(res.At(0).Type())
	}
	t := make(tuple, res.Len())
	for k := range t {
		t[k] = zeroStub(res.At(k).Type())
	}
	return t
}

func noop(fr *frame, args []value) value { return nil }

func init() {
	for k, v := range map[string]externalFn{
		// sync
		"(*sync.Mutex).Lock":      extMutexLock,
		"(*sync.Mutex).Unlock":    extMutexUnlock,
		"(*sync.Mutex).TryLock":   func(fr *frame, a []value) value { return true },
		"(*sync.RWMutex).Lock":    noop,
		"(*sync.RWMutex).Unlock":  noop,
		"(*sync.RWMutex).RLock":   noop,
		"(*sync.RWMutex).RUnlock": noop,
		"(*sync.RWMutex).TryLock": func(fr *frame, a []value) value { return true },
		"(*sync.WaitGroup).Add":   noop,
		"(*sync.WaitGroup).Done":  noop,
		"(*sync.WaitGroup).Wait":  noop,
		"(*sync.Once).Do":         extOnceDo,
		"(*sync.Pool).Get":        extPoolGet,
		"(*sync.Pool).Put":        noop,
		"(*sync.Cond).Broadcast":  noop,
		"(*sync.Cond).Signal":     noop,
		"(*sync.Map).Load":        extSyncMapLoad,
		"(*sync.Map).Store":       extSyncMapStore,
		"(*sync.Map).LoadOrStore": extSyncMapLoadOrStore,
		"(*sync.Map).Delete":      extSyncMapDelete,
		"(*sync.Map).Range":       extSyncMapRange,
		"(*sync.Map).LoadAndDelete": func(fr *frame, a []value) value {
			r := extSyncMapLoad(fr, a)
			extSyncMapDelete(fr, a)
			return r
		},

		// sync/atomic
		"sync/atomic.LoadInt32":             extAtomicLoad,
		"sync/atomic.LoadInt64":             extAtomicLoad,
		"sync/atomic.LoadUint32":            extAtomicLoad,
		"sync/atomic.LoadUint64":            extAtomicLoad,
		"sync/atomic.LoadUintptr":           extAtomicLoad,
		"sync/atomic.LoadPointer":           extAtomicLoad,
		"sync/atomic.StoreInt32":            extAtomicStore,
		"sync/atomic.StoreInt64":            extAtomicStore,
		"sync/atomic.StoreUint32":           extAtomicStore,
		"sync/atomic.StoreUint64":           extAtomicStore,
		"sync/atomic.StoreUintptr":          extAtomicStore,
		"sync/atomic.StorePointer":          extAtomicStore,
		"sync/atomic.SwapInt32":             extAtomicSwap,
		"sync/atomic.SwapInt64":             extAtomicSwap,
		"sync/atomic.SwapUint32":            extAtomicSwap,
		"sync/atomic.SwapUint64":            extAtomicSwap,
		"sync/atomic.SwapPointer":           extAtomicSwap,
		"sync/atomic.AddInt32":              extAtomicAdd(types.Typ[types.Int32]),
		"sync/atomic.AddInt64":              extAtomicAdd(types.Typ[types.Int64]),
		"sync/atomic.AddUint32":             extAtomicAdd(types.Typ[types.Uint32]),
		"sync/atomic.AddUint64":             extAtomicAdd(types.Typ[types.Uint64]),
		"sync/atomic.AddUintptr":            extAtomicAdd(types.Typ[types.Uintptr]),
		"sync/atomic.CompareAndSwapInt32":   extAtomicCAS(types.Typ[types.Int32]),
		"sync/atomic.CompareAndSwapInt64":   extAtomicCAS(types.Typ[types.Int64]),
		"sync/atomic.CompareAndSwapUint32":  extAtomicCAS(types.Typ[types.Uint32]),
		"sync/atomic.CompareAndSwapUint64":  extAtomicCAS(types.Typ[types.Uint64]),
		"sync/atomic.CompareAndSwapPointer": extAtomicCAS(types.Typ[types.UnsafePointer]),
		"(*sync/atomic.Value).Load":         extAtomicValueLoad,
		"(*sync/atomic.Value).Store":        extAtomicValueStore,

		// runtime & friends
		"runtime.GC":                     noop,
		"runtime.Gosched":                noop,
		"runtime.KeepAlive":              noop,
		"runtime.SetFinalizer":           noop,
		"runtime.GOMAXPROCS":             func(fr *frame, a []value) value { return 1 },
		"runtime.NumCPU":                 func(fr *frame, a []value) value { return 1 },
		"runtime.NumGoroutine":           func(fr *frame, a []value) value { return 1 },
		"runtime.Caller":                 func(fr *frame, a []value) value { return tuple{uintptr(0), "", 0, false} },
		"runtime.Callers":                func(fr *frame, a []value) value { return 0 },
		"runtime.Stack":                  func(fr *frame, a []value) value { return 0 },
		"runtime/debug.Stack":            func(fr *frame, a []value) value { return []value(nil) },
		"runtime/debug.PrintStack":       noop,
		"internal/abi.NoEscape":          func(fr *frame, a []value) value { return a[0] },
		"internal/godebug.(*Setting).Value":         func(fr *frame, a []value) value { return "" },
		"(*internal/godebug.Setting).Value":         func(fr *frame, a []value) value { return "" },
		"(*internal/godebug.Setting).IncNonDefault": noop,
		"internal/godebug.New":                      func(fr *frame, a []value) value { return (*value)(nil) },
		"time.Sleep":                                noop,
		"time.Now":                                  extTimeNow,
		"time.now":                                  func(fr *frame, a []value) value { return tuple{int64(0), int32(0), int64(0)} },
		"time.runtimeNano":                          func(fr *frame, a []value) value { return int64(0) },
		"time.Since":                                func(fr *frame, a []value) value { return int64(0) },
		"time.Until":                                func(fr *frame, a []value) value { return int64(0) },
		"os.Getenv":                                 func(fr *frame, a []value) value { return "" },
		"os.LookupEnv":                              func(fr *frame, a []value) value { return tuple{"", false} },
		"os.Exit": func(fr *frame, a []value) value {
			panic(targetPanic{"os.Exit called"})
		},

		// internal/bytealg
		"internal/bytealg.IndexByte":       extIndexByte,
		"internal/bytealg.IndexByteString": extIndexByte,
		"internal/bytealg.Equal":           extBytesEqual,
		"internal/bytealg.Compare":         extBytesCompare,
		"internal/bytealg.CompareString":   extBytesCompare,
		"runtime.cmpstring":                extBytesCompare,
		"internal/bytealg.Count":           extCountByte,
		"internal/bytealg.CountString":     extCountByte,
		"internal/bytealg.Index":           extIndexSub,
		"internal/bytealg.IndexString":     extIndexSub,
		"internal/bytealg.MakeNoZero": func(fr *frame, a []value) value {
			n := fr.i.concreteLen(a[0], "MakeNoZero")
			fr.i.alloc(n)
			s := make([]value, n)
			for k := range s {
				s[k] = uint8(0)
			}
			return s
		},
		"bytes.Equal":   extBytesEqual,
		"bytes.Compare": extBytesCompare,
		"strings.Compare": extBytesCompare,
		"internal/stringslite.Index": extIndexSub,

		// math
		"math.Float64bits":     func(fr *frame, a []value) value { return math.Float64bits(a[0].(float64)) },
		"math.Float64frombits": func(fr *frame, a []value) value { return math.Float64frombits(fr.i.concreteU64(a[0])) },
		"math.Float32bits":     func(fr *frame, a []value) value { return math.Float32bits(a[0].(float32)) },
		"math.Float32frombits": func(fr *frame, a []value) value { return math.Float32frombits(uint32(fr.i.concreteU64(a[0]))) },
		"math.Abs":             func(fr *frame, a []value) value { return math.Abs(a[0].(float64)) },
		"math.Sqrt":            func(fr *frame, a []value) value { return math.Sqrt(a[0].(float64)) },
		"math.Floor":           func(fr *frame, a []value) value { return math.Floor(a[0].(float64)) },
		"math.Ceil":            func(fr *frame, a []value) value { return math.Ceil(a[0].(float64)) },
		"math.Trunc":           func(fr *frame, a []value) value { return math.Trunc(a[0].(float64)) },
		"math.Exp":             func(fr *frame, a []value) value { return math.Exp(a[0].(float64)) },
		"math.Log":             func(fr *frame, a []value) value { return math.Log(a[0].(float64)) },
		"math.Log2":            func(fr *frame, a []value) value { return math.Log2(a[0].(float64)) },
		"math.Pow":             func(fr *frame, a []value) value { return math.Pow(a[0].(float64), a[1].(float64)) },
		"math.Inf":             func(fr *frame, a []value) value { return math.Inf(a[0].(int)) },
		"math.NaN":             func(fr *frame, a []value) value { return math.NaN() },
		"math.IsNaN":           func(fr *frame, a []value) value { return math.IsNaN(a[0].(float64)) },
		"math.IsInf":           func(fr *frame, a []value) value { return math.IsInf(a[0].(float64), a[1].(int)) },
		"math.Ldexp":           func(fr *frame, a []value) value { return math.Ldexp(a[0].(float64), a[1].(int)) },
		"math.Frexp": func(fr *frame, a []value) value {
			f, e := math.Frexp(a[0].(float64))
			return tuple{f, e}
		},
		"math.Modf": func(fr *frame, a []value) value {
			x, y := math.Modf(a[0].(float64))
			return tuple{x, y}
		},
		"math.Min": func(fr *frame, a []value) value { return math.Min(a[0].(float64), a[1].(float64)) },
		"math.Max": func(fr *frame, a []value) value { return math.Max(a[0].(float64), a[1].(float64)) },

		// errors
		"errors.Is": extErrorsIs,
		"errors.As": extErrorsAs,

		// sort with reflection
		"sort.Slice":       extSortSlice,
		"sort.SliceStable": extSortSlice,
	} {
		externals[k] = v
	}
}

func (i *interpreter) concreteU64(x value) uint64 {
	if t, ok := x.(*Term); ok {
		return i.concretize(t, "float bits")
	}
	b, _, _ := intBits(x)
	return b
}

// ---------------------------------------------------------------------
// sync

func extMutexLock(fr *frame, args []value) value {
	p := fr.i.checkPtr(args[0].(*value))
	m := (*p).(structure)
	// Mutex{state int32; sema uint32}
	if st, ok := m[0].(int32); ok {
		if st != 0 {
			panic(targetPanic{fr.i.runtimeError("fatal error: all goroutines are asleep - deadlock! (Lock of a held sync.Mutex)")})
		}
		m[0] = int32(1)
	}
	return nil
}

func extMutexUnlock(fr *frame, args []value) value {
	p := fr.i.checkPtr(args[0].(*value))
	m := (*p).(structure)
	if st, ok := m[0].(int32); ok {
		if st == 0 {
			panic(targetPanic{fr.i.runtimeError("fatal error: sync: unlock of unlocked mutex")})
		}
		m[0] = int32(0)
	}
	return nil
}

func extOnceDo(fr *frame, args []value) value {
	p := fr.i.checkPtr(args[0].(*value))
	o := (*p).(structure)
	// Once{done atomic.Uint32{_ noCopy; v uint32}; m Mutex}  (go1.23)
	switch d := o[0].(type) {
	case structure:
		if d[len(d)-1].(uint32) != 0 {
			return nil
		}
		d[len(d)-1] = uint32(1)
	case uint32:
		if d != 0 {
			return nil
		}
		o[0] = uint32(1)
	default:
		panic(unsupported(fmt.Sprintf("sync.Once layout %T", o[0])))
	}
	call(fr.i, fr, token.NoPos, args[1], nil)
	return nil
}

func extPoolGet(fr *frame, args []value) value {
	p := fr.i.checkPtr(args[0].(*value))
	pool := (*p).(structure)
	// last field is New func() any
	newf := pool[len(pool)-1]
	if isNilValue(newf) {
		return iface{}
	}
	return call(fr.i, fr, token.NoPos, newf, nil)
}

// sync.Map is modelled by a *gmap kept in its `dirty` field slot.
func syncMapGet(fr *frame, recv value) *gmap {
	p := fr.i.checkPtr(recv.(*value))
	st := (*p).(structure)
	for k := range st {
		if m, ok := st[k].(*gmap); ok {
			if m == nil {
				m = makeMap(types.NewInterfaceType(nil, nil).Complete())
				st[k] = m
			}
			return m
		}
	}
	panic(unsupported("sync.Map layout"))
}

func extSyncMapLoad(fr *frame, args []value) value {
	m := syncMapGet(fr, args[0])
	if e := fr.i.mapFind(m, args[1]); e != nil {
		return tuple{e.val, true}
	}
	return tuple{iface{}, false}
}

func extSyncMapStore(fr *frame, args []value) value {
	m := syncMapGet(fr, args[0])
	fr.i.mapInsert(m, args[1], args[2])
	return nil
}

func extSyncMapLoadOrStore(fr *frame, args []value) value {
	m := syncMapGet(fr, args[0])
	if e := fr.i.mapFind(m, args[1]); e != nil {
		return tuple{e.val, true}
	}
	fr.i.mapInsert(m, args[1], args[2])
	return tuple{args[2], false}
}

func extSyncMapDelete(fr *frame, args []value) value {
	m := syncMapGet(fr, args[0])
	fr.i.mapDelete(m, args[1])
	return nil
}

func extSyncMapRange(fr *frame, args []value) value {
	m := syncMapGet(fr, args[0])
	snap := append([]*mentry(nil), m.entries...)
	for _, e := range snap {
		if e.deleted {
			continue
		}
		r := call(fr.i, fr, token.NoPos, args[1], []value{e.key, e.val})
		if !fr.i.truth(r) {
			break
		}
	}
	return nil
}

func extAtomicLoad(fr *frame, args []value) value {
	return *fr.i.checkPtr(args[0].(*value))
}

func extAtomicStore(fr *frame, args []value) value {
	*fr.i.checkPtr(args[0].(*value)) = args[1]
	return nil
}

func extAtomicSwap(fr *frame, args []value) value {
	p := fr.i.checkPtr(args[0].(*value))
	old := *p
	*p = args[1]
	return old
}

func extAtomicAdd(t types.Type) externalFn {
	return func(fr *frame, args []value) value {
		p := fr.i.checkPtr(args[0].(*value))
		*p = binop(fr.i, token.ADD, t, t, *p, args[1])
		return *p
	}
}

func extAtomicCAS(t types.Type) externalFn {
	return func(fr *frame, args []value) value {
		p := fr.i.checkPtr(args[0].(*value))
		if fr.i.truth(fr.i.equalsV(t, *p, args[1])) {
			*p = args[2]
			return true
		}
		return false
	}
}

func extAtomicValueLoad(fr *frame, args []value) value {
	p := fr.i.checkPtr(args[0].(*value))
	return (*p).(structure)[0]
}

func extAtomicValueStore(fr *frame, args []value) value {
	p := fr.i.checkPtr(args[0].(*value))
	(*p).(structure)[0] = args[1]
	return nil
}

// ---------------------------------------------------------------------
// time

func extTimeNow(fr *frame, args []value) value {
	// time.Time{wall uint64; ext int64; loc *Location}; a fixed instant (2024-01-01) keeps things deterministic.
	return structure{uint64(0), int64(63839664000), (*value)(nil)}
}

// ---------------------------------------------------------------------
// bytealg

func byteSeq(x value) []value {
	switch x := x.(type) {
	case []value:
		return x
	case string, symstr:
		return strBytes(x)
	}
	panic(fmt.Sprintf("byteSeq: %T", x))
}

var tU8 = types.Typ[types.Uint8]

func extIndexByte(fr *frame, args []value) value {
	b := byteSeq(args[0])
	for k := range b {
		if fr.i.truth(fr.i.equalsV(tU8, b[k], args[1])) {
			return k
		}
	}
	return -1
}

func extCountByte(fr *frame, args []value) value {
	b := byteSeq(args[0])
	n := 0
	for k := range b {
		if fr.i.truth(fr.i.equalsV(tU8, b[k], args[1])) {
			n++
		}
	}
	return n
}

func extBytesEqual(fr *frame, args []value) value {
	a, b := byteSeq(args[0]), byteSeq(args[1])
	if len(a) != len(b) {
		return false
	}
	return fr.i.bytesEqV(a, b)
}

func extBytesCompare(fr *frame, args []value) value {
	a, b := byteSeq(args[0]), byteSeq(args[1])
	lt := fr.i.bytesLess(a, b, false)
	if fr.i.truth(lt) {
		return -1
	}
	gt := fr.i.bytesLess(b, a, false)
	if fr.i.truth(gt) {
		return 1
	}
	return 0
}

func extIndexSub(fr *frame, args []value) value {
	a, b := byteSeq(args[0]), byteSeq(args[1])
	for k := 0; k+len(b) <= len(a); k++ {
		var acc value = true
		for j := range b {
			acc = fr.i.andV(acc, fr.i.equalsV(tU8, a[k+j], b[j]))
			if acc == false {
				break
			}
		}
		if fr.i.truth(acc) {
			return k
		}
	}
	return -1
}

// ---------------------------------------------------------------------
// errors

var errorIface = types.Universe.Lookup("error").Type()

func (i *interpreter) findMethod(t types.Type, name string) *ssa.Function {
	ms := i.prog.MethodSets.MethodSet(t)
	for k := 0; k < ms.Len(); k++ {
		sel := ms.At(k)
		if sel.Obj().Name() == name {
			return i.prog.MethodValue(sel)
		}
	}
	return nil
}

func (i *interpreter) unwrapErr(fr *frame, e iface) []iface {
	if e.t == nil {
		return nil
	}
	if m := i.findMethod(e.t, "Unwrap"); m != nil {
		res := m.Signature.Results()
		if res.Len() == 1 {
			r := call(i, fr, token.NoPos, m, []value{e.v})
			switch r := r.(type) {
			case iface:
				if r.t == nil {
					return nil
				}
				return []iface{r}
			case []value:
				var out []iface
				for _, x := range r {
					if xi := x.(iface); xi.t != nil {
						out = append(out, xi)
					}
				}
				return out
			}
		}
	}
	return nil
}

func extErrorsIs(fr *frame, args []value) value {
	i := fr.i
	err, target := args[0].(iface), args[1].(iface)
	if err.t == nil || target.t == nil {
		return err.t == nil && target.t == nil
	}
	cmp := types.Comparable(target.t)
	var rec func(e iface) bool
	rec = func(e iface) bool {
		if cmp && sameType(e.t, target.t) {
			if i.truth(i.equalsV(e.t, e.v, target.v)) {
				return true
			}
		}
		if m := i.findMethod(e.t, "Is"); m != nil && m.Signature.Params().Len() == 1 && m.Signature.Results().Len() == 1 {
			if i.truth(call(i, fr, token.NoPos, m, []value{e.v, target})) {
				return true
			}
		}
		for _, u := range i.unwrapErr(fr, e) {
			if rec(u) {
				return true
			}
		}
		return false
	}
	return rec(err)
}

func extErrorsAs(fr *frame, args []value) value {
	i := fr.i
	err, target := args[0].(iface), args[1].(iface)
	if err.t == nil {
		return false
	}
	if target.t == nil {
		panic(targetPanic{"errors: target cannot be nil"})
	}
	pt, ok := target.t.Underlying().(*types.Pointer)
	if !ok {
		panic(targetPanic{"errors: target must be a non-nil pointer"})
	}
	tt := pt.Elem()
	dst := target.v.(*value)
	var rec func(e iface) bool
	rec = func(e iface) bool {
		if _, isI := tt.Underlying().(*types.Interface); isI {
			if types.AssignableTo(e.t, tt) {
				*dst = e
				return true
			}
		} else if types.Identical(e.t, tt) {
			store(tt, dst, e.v)
			return true
		}
		if m := i.findMethod(e.t, "As"); m != nil && m.Signature.Params().Len() == 1 {
			if i.truth(call(i, fr, token.NoPos, m, []value{e.v, target})) {
				return true
			}
		}
		for _, u := range i.unwrapErr(fr, e) {
			if rec(u) {
				return true
			}
		}
		return false
	}
	return rec(err)
}

// ---------------------------------------------------------------------
// sort.Slice

func extSortSlice(fr *frame, args []value) value {
	x := args[0].(iface)
	s, ok := x.v.([]value)
	if !ok {
		panic(unsupported("sort.Slice of non-slice"))
	}
	less := args[1]
	n := len(s)
	// Insertion sort on a permutation; less(i,j) refers to current positions, so we
	// sort in place exactly as the caller expects: swap elements and call less on indices.
	for a := 1; a < n; a++ {
		for b := a; b > 0; b-- {
			r := call(fr.i, fr, token.NoPos, less, []value{b, b - 1})
			if !fr.i.truth(r) {
				break
			}
			s[b], s[b-1] = s[b-1], s[b]
		}
	}
	return nil
}

func fnName(fn *ssa.Function) string { return strings.TrimSpace(fn.String()) }
