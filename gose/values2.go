package main

// Additional value kinds for the symbolic interpreter:
//   *Term   --- a symbolic scalar (Bool when w==0, else bit-vector of the Go width)
//   symstr  --- a string with concrete length whose bytes may be symbolic
//   *gmap   --- all Go maps (insertion ordered; keys may be symbolic)
//   *gchan  --- channels (FIFO queue, sends never block)

import (
	"fmt"
	"go/types"
	"strconv"
	"strings"
	"unsafe"

	"golang.org/x/tools/go/ssa"
)

type symstr []value // each element uint8 or *Term(w=8)

// normStr returns a Go string if every byte is concrete.
func normStr(s symstr) value {
	for _, b := range s {
		if _, ok := b.(uint8); !ok {
			return s
		}
	}
	bs := make([]byte, len(s))
	for i, b := range s {
		bs[i] = b.(uint8)
	}
	return string(bs)
}

func strBytes(x value) []value {
	switch x := x.(type) {
	case string:
		r := make([]value, len(x))
		for i := 0; i < len(x); i++ {
			r[i] = x[i]
		}
		return r
	case symstr:
		return []value(x)
	}
	panic(fmt.Sprintf("strBytes: %T", x))
}

func strLen(x value) int {
	switch x := x.(type) {
	case string:
		return len(x)
	case symstr:
		return len(x)
	}
	panic(fmt.Sprintf("strLen: %T", x))
}

func isSym(v value) bool {
	_, ok := v.(*Term)
	return ok
}

// ---------------------------------------------------------------------
// integer helpers

type intKind struct {
	w      int
	signed bool
	kind   types.BasicKind
}

func basicIntKind(t types.Type) (intKind, bool) {
	b, ok := t.Underlying().(*types.Basic)
	if !ok {
		return intKind{}, false
	}
	switch b.Kind() {
	case types.Int, types.UntypedInt:
		return intKind{64, true, types.Int}, true
	case types.Int8:
		return intKind{8, true, types.Int8}, true
	case types.Int16:
		return intKind{16, true, types.Int16}, true
	case types.Int32, types.UntypedRune:
		return intKind{32, true, types.Int32}, true
	case types.Int64:
		return intKind{64, true, types.Int64}, true
	case types.Uint:
		return intKind{64, false, types.Uint}, true
	case types.Uint8:
		return intKind{8, false, types.Uint8}, true
	case types.Uint16:
		return intKind{16, false, types.Uint16}, true
	case types.Uint32:
		return intKind{32, false, types.Uint32}, true
	case types.Uint64:
		return intKind{64, false, types.Uint64}, true
	case types.Uintptr:
		return intKind{64, false, types.Uintptr}, true
	}
	return intKind{}, false
}

// intBits returns the raw bits (zero-extended to 64) of a concrete Go integer value.
func intBits(x value) (uint64, int, bool) {
	switch x := x.(type) {
	case int:
		return uint64(x), 64, true
	case int8:
		return uint64(uint8(x)), 8, true
	case int16:
		return uint64(uint16(x)), 16, true
	case int32:
		return uint64(uint32(x)), 32, true
	case int64:
		return uint64(x), 64, true
	case uint:
		return uint64(x), 64, true
	case uint8:
		return uint64(x), 8, true
	case uint16:
		return uint64(x), 16, true
	case uint32:
		return uint64(x), 32, true
	case uint64:
		return x, 64, true
	case uintptr:
		return uint64(x), 64, true
	}
	return 0, 0, false
}

func mkInt(kind types.BasicKind, bits uint64) value {
	switch kind {
	case types.Int, types.UntypedInt:
		return int(bits)
	case types.Int8:
		return int8(bits)
	case types.Int16:
		return int16(bits)
	case types.Int32, types.UntypedRune:
		return int32(bits)
	case types.Int64:
		return int64(bits)
	case types.Uint:
		return uint(bits)
	case types.Uint8:
		return uint8(bits)
	case types.Uint16:
		return uint16(bits)
	case types.Uint32:
		return uint32(bits)
	case types.Uint64:
		return bits
	case types.Uintptr:
		return uintptr(bits)
	}
	panic(fmt.Sprintf("mkInt: kind %v", kind))
}

// toTerm converts a scalar value (bool or integer, concrete or symbolic) to a term.
func (i *interpreter) toTerm(x value) *Term {
	switch x := x.(type) {
	case *Term:
		return x
	case bool:
		return i.tb.Bool(x)
	}
	if b, w, ok := intBits(x); ok {
		return i.tb.Const(w, b)
	}
	panic(unsupported(fmt.Sprintf("toTerm(%T)", x)))
}

// fromTerm converts a term back to a concrete value of type t if it is constant.
func fromTerm(t types.Type, x *Term) value {
	if !x.isConst() {
		return x
	}
	if x.w == 0 {
		return x.c != 0
	}
	if ik, ok := basicIntKind(t); ok {
		return mkInt(ik.kind, x.c)
	}
	return x
}

// ---------------------------------------------------------------------
// equality

// equalsV returns x == y for type t as a bool or a *Term (Bool).
func (i *interpreter) equalsV(t types.Type, x, y value) value {
	if tx, ok := x.(*Term); ok {
		return fromTerm(types.Typ[types.Bool], i.tb.Eq(tx, i.toTerm(y)))
	}
	if ty, ok := y.(*Term); ok {
		return fromTerm(types.Typ[types.Bool], i.tb.Eq(i.toTerm(x), ty))
	}
	switch x := x.(type) {
	case bool:
		return x == y.(bool)
	case int:
		return x == y.(int)
	case int8:
		return x == y.(int8)
	case int16:
		return x == y.(int16)
	case int32:
		return x == y.(int32)
	case int64:
		return x == y.(int64)
	case uint:
		return x == y.(uint)
	case uint8:
		return x == y.(uint8)
	case uint16:
		return x == y.(uint16)
	case uint32:
		return x == y.(uint32)
	case uint64:
		return x == y.(uint64)
	case uintptr:
		return x == y.(uintptr)
	case float32:
		return x == y.(float32)
	case float64:
		return x == y.(float64)
	case complex64:
		return x == y.(complex64)
	case complex128:
		return x == y.(complex128)
	case string:
		if ys, ok := y.(string); ok {
			return x == ys
		}
		return i.strEq(x, y)
	case symstr:
		return i.strEq(x, y)
	case *value:
		return x == y.(*value)
	case unsafe.Pointer:
		return x == y.(unsafe.Pointer)
	case *gchan:
		return x == y.(*gchan)
	case structure:
		ys := y.(structure)
		tStruct := t.Underlying().(*types.Struct)
		var acc value = true
		for k, n := 0, tStruct.NumFields(); k < n; k++ {
			f := tStruct.Field(k)
			if f.Name() == "_" {
				continue
			}
			acc = i.andV(acc, i.equalsV(f.Type(), x[k], ys[k]))
			if acc == false {
				return false
			}
		}
		return acc
	case array:
		ya := y.(array)
		tElt := t.Underlying().(*types.Array).Elem()
		if b, ok := tElt.Underlying().(*types.Basic); ok && b.Kind() == types.Uint8 {
			return i.bytesEqV(x, ya)
		}
		var acc value = true
		for k := range x {
			acc = i.andV(acc, i.equalsV(tElt, x[k], ya[k]))
			if acc == false {
				return false
			}
		}
		return acc
	case iface:
		yi := y.(iface)
		if !sameType(x.t, yi.t) {
			return false
		}
		if x.t == nil {
			return true
		}
		if x.t == rtypeType {
			return types.Identical(x.v.(rtype).t, yi.v.(rtype).t)
		}
		if !types.Comparable(x.t) {
			panic(targetPanic{i.runtimeError("runtime error: comparing uncomparable type " + x.t.String())})
		}
		return i.equalsV(x.t, x.v, yi.v)
	case rtype:
		return types.Identical(x.t, y.(rtype).t)
	}
	panic(fmt.Sprintf("comparing uncomparable type %s (%T)", t, x))
}

// nil-tolerant variant of types.Identical.
func sameType(x, y types.Type) bool {
	if x == nil {
		return y == nil
	}
	return y != nil && types.Identical(x, y)
}

// extRun returns the end (exclusive) of the run of bytes starting at s[k] that are consecutive
// 8-bit slices of one wider term (a hash output, an integer), or k if s[k] is not such a slice.
func extRun(s []value, k int) int {
	t, ok := s[k].(*Term)
	if !ok || t.op != opExtract || t.w != 8 {
		return k
	}
	j := k + 1
	for j < len(s) {
		n, ok := s[j].(*Term)
		if !ok || n.op != opExtract || n.w != 8 || n.args[0] != t.args[0] || n.hi != t.lo-1 {
			break
		}
		t = n
		j++
	}
	return j
}

// bytesEqV returns the equality of two byte sequences of equal length. Runs of bytes that are
// consecutive slices of one wider term are compared as one wide term, so that the comparison
// coincides syntactically with the equalities the hash axioms speak about (comparing a digest
// byte by byte with a constant otherwise costs the solver a search it may not finish).
func (i *interpreter) bytesEqV(xs, ys []value) value {
	u8 := types.Typ[types.Uint8]
	var acc value = true
	for k := 0; k < len(xs); {
		j := extRun(xs, k)
		if jy := extRun(ys, k); j-k < 2 || (jy-k >= 2 && jy < j) {
			if jy-k >= 2 {
				j = jy
			}
		}
		var eq value
		if j-k >= 2 {
			eq = fromTerm(types.Typ[types.Bool], i.tb.Eq(i.bytesTerm(xs[k:j]), i.bytesTerm(ys[k:j])))
		} else {
			j = k + 1
			eq = i.equalsV(u8, xs[k], ys[k])
		}
		acc = i.andV(acc, eq)
		if acc == false {
			return false
		}
		k = j
	}
	return acc
}

func (i *interpreter) strEq(x, y value) value {
	xb, yb := strBytes(x), strBytes(y)
	if len(xb) != len(yb) {
		return false
	}
	return i.bytesEqV(xb, yb)
}

func (i *interpreter) bytesLess(xb, yb []value, orEq bool) value {
	// lexicographic x < y (or <=)
	n := len(xb)
	if len(yb) < n {
		n = len(yb)
	}
	var res value
	if len(xb) < len(yb) {
		res = true
	} else if len(xb) == len(yb) {
		res = orEq
	} else {
		res = false
	}
	u8 := types.Typ[types.Uint8]
	for k := n - 1; k >= 0; k-- {
		lt := i.cmpV(opUlt, u8, xb[k], yb[k])
		eq := i.equalsV(u8, xb[k], yb[k])
		res = i.orV(lt, i.andV(eq, res))
	}
	return res
}

func (i *interpreter) cmpV(op opcode, t types.Type, x, y value) value {
	return fromTerm(types.Typ[types.Bool], i.tb.Cmp(op, i.toTerm(x), i.toTerm(y)))
}

func (i *interpreter) andV(a, b value) value {
	if ab, ok := a.(bool); ok {
		if !ab {
			return false
		}
		return b
	}
	if bb, ok := b.(bool); ok {
		if !bb {
			return false
		}
		return a
	}
	return fromTerm(types.Typ[types.Bool], i.tb.And(a.(*Term), b.(*Term)))
}

func (i *interpreter) orV(a, b value) value {
	if ab, ok := a.(bool); ok {
		if ab {
			return true
		}
		return b
	}
	if bb, ok := b.(bool); ok {
		if bb {
			return true
		}
		return a
	}
	return fromTerm(types.Typ[types.Bool], i.tb.Or(a.(*Term), b.(*Term)))
}

func (i *interpreter) notV(a value) value {
	if ab, ok := a.(bool); ok {
		return !ab
	}
	return fromTerm(types.Typ[types.Bool], i.tb.Not(a.(*Term)))
}

// truth resolves a bool-or-Term to a concrete bool, forking if necessary.
func (i *interpreter) truth(v value) bool {
	switch v := v.(type) {
	case bool:
		return v
	case *Term:
		return i.decide(v)
	}
	panic(fmt.Sprintf("truth(%T)", v))
}

// ---------------------------------------------------------------------
// maps

type mentry struct {
	key, val value
	ck      string
	conc    bool
	deleted bool
}

type gmap struct {
	kt      types.Type
	entries []*mentry
	idx     map[string]*mentry
	nsym    int
}

func makeMap(kt types.Type) *gmap {
	return &gmap{kt: kt, idx: map[string]*mentry{}}
}

func writeKey(sb *strings.Builder, v value) bool {
	switch v := v.(type) {
	case bool:
		if v {
			sb.WriteByte('T')
		} else {
			sb.WriteByte('F')
		}
	case string:
		sb.WriteString(strconv.Itoa(len(v)))
		sb.WriteByte('"')
		sb.WriteString(v)
	case symstr:
		return false
	case *Term:
		return false
	case *value:
		fmt.Fprintf(sb, "p%p", v)
	case *gchan:
		fmt.Fprintf(sb, "c%p", v)
	case unsafe.Pointer:
		fmt.Fprintf(sb, "u%p", v)
	case float32:
		fmt.Fprintf(sb, "f%v", v)
	case float64:
		fmt.Fprintf(sb, "f%v", v)
	case complex64, complex128:
		fmt.Fprintf(sb, "x%v", v)
	case structure:
		sb.WriteByte('{')
		for _, e := range v {
			if !writeKey(sb, e) {
				return false
			}
			sb.WriteByte(',')
		}
		sb.WriteByte('}')
	case array:
		sb.WriteByte('[')
		for _, e := range v {
			if !writeKey(sb, e) {
				return false
			}
			sb.WriteByte(',')
		}
		sb.WriteByte(']')
	case iface:
		if v.t == nil {
			sb.WriteString("nil")
		} else {
			sb.WriteString(types.Unalias(v.t).String())
			sb.WriteByte(':')
			if v.t == rtypeType {
				return writeKey(sb, v.v)
			}
			if !types.Comparable(v.t) {
				panic(targetPanic{"runtime error: hash of unhashable type " + v.t.String()})
			}
			return writeKey(sb, v.v)
		}
	case rtype:
		sb.WriteString("rt:" + v.t.String())
	case *ssa.Function, *closure, []value, *gmap:
		panic(targetPanic{fmt.Sprintf("runtime error: hash of unhashable type %T", v)})
	default:
		if b, w, ok := intBits(v); ok {
			sb.WriteString(strconv.FormatUint(b, 16))
			sb.WriteByte('/')
			sb.WriteString(strconv.Itoa(w))
			return true
		}
		panic(fmt.Sprintf("writeKey: %T", v))
	}
	return true
}

func keyString(v value) (string, bool) {
	var sb strings.Builder
	ok := writeKey(&sb, v)
	return sb.String(), ok
}

func (i *interpreter) mapFind(m *gmap, k value) *mentry {
	if m == nil {
		return nil
	}
	ks, conc := keyString(k)
	if conc {
		if e := m.idx[ks]; e != nil {
			return e
		}
		if m.nsym == 0 {
			return nil
		}
		for _, e := range m.entries {
			if e.conc {
				continue
			}
			if i.truth(i.equalsV(m.kt, k, e.key)) {
				return e
			}
		}
		return nil
	}
	for _, e := range m.entries {
		if i.truth(i.equalsV(m.kt, k, e.key)) {
			return e
		}
	}
	return nil
}

func (i *interpreter) mapInsert(m *gmap, k, v value) {
	if m == nil {
		panic(targetPanic{i.runtimeError("assignment to entry in nil map")})
	}
	if e := i.mapFind(m, k); e != nil {
		e.val = v
		return
	}
	ks, conc := keyString(k)
	e := &mentry{key: k, val: v, ck: ks, conc: conc}
	m.entries = append(m.entries, e)
	if conc {
		m.idx[ks] = e
	} else {
		m.nsym++
	}
}

func (i *interpreter) mapDelete(m *gmap, k value) {
	if m == nil {
		return
	}
	e := i.mapFind(m, k)
	if e == nil {
		return
	}
	e.deleted = true
	if e.conc {
		delete(m.idx, e.ck)
	} else {
		m.nsym--
	}
	for j, x := range m.entries {
		if x == e {
			m.entries = append(m.entries[:j:j], m.entries[j+1:]...)
			break
		}
	}
}

func (m *gmap) len() int {
	if m == nil {
		return 0
	}
	return len(m.entries)
}

func (m *gmap) clear() {
	if m == nil {
		return
	}
	for _, e := range m.entries {
		e.deleted = true
	}
	m.entries = nil
	m.idx = map[string]*mentry{}
	m.nsym = 0
}

type mapIter struct {
	snap []*mentry
	pos  int
}

func (it *mapIter) next() tuple {
	for it.pos < len(it.snap) {
		e := it.snap[it.pos]
		it.pos++
		if e.deleted {
			continue
		}
		return tuple{true, e.key, e.val}
	}
	return tuple{false, nil, nil}
}

// ---------------------------------------------------------------------
// channels: FIFO queues; sends never block

type gchan struct {
	buf    []value
	cap    int
	closed bool
	elem   types.Type
}

// ---------------------------------------------------------------------
// string iteration

type stringIter struct {
	s symstr
	i int
}

func (it *stringIter) next() tuple {
	if it.i >= len(it.s) {
		return tuple{false, nil, nil}
	}
	b0, ok := it.s[it.i].(uint8)
	if !ok {
		panic(unsupported("range over string with symbolic bytes"))
	}
	// decode UTF-8 from concrete bytes
	n := 1
	switch {
	case b0 < 0x80:
	case b0&0xE0 == 0xC0:
		n = 2
	case b0&0xF0 == 0xE0:
		n = 3
	case b0&0xF8 == 0xF0:
		n = 4
	}
	if it.i+n > len(it.s) {
		n = 1
	}
	bs := make([]byte, n)
	for k := 0; k < n; k++ {
		b, ok := it.s[it.i+k].(uint8)
		if !ok {
			panic(unsupported("range over string with symbolic bytes"))
		}
		bs[k] = b
	}
	r := []rune(string(bs))
	idx := it.i
	var ch rune
	if len(r) == 1 {
		ch = r[0]
		it.i += n
	} else {
		ch = 0xFFFD
		it.i++
	}
	return tuple{true, idx, ch}
}

// opaqueSlice is a byte slice whose length is a symbolic term and whose
// contents may not be accessed (only len() is supported). Created by
// vrt.OpaqueBytes for code that depends on a length only.
type opaqueSlice struct{ n value }
