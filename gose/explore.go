package main

// Stateless path exploration with decision-prefix replay.

import (
	"fmt"
	"go/token"
	"go/types"
	"math/big"
	"os"
	"runtime"
	"sort"
	"strings"
	"sync"
	"time"

	"golang.org/x/tools/go/ssa"
)

type violationRec struct {
	Harness string            `json:"harness"`
	Label   string            `json:"label"`
	Kind    string            `json:"kind"` // assert | panic | alloc | bound
	Msg     string            `json:"msg"`
	Model   map[string]string `json:"model"`
	Trace   []uint64          `json:"trace"`
	Known   string            `json:"known,omitempty"`
}

type knownFinding struct {
	Property string         `json:"property"`
	Harness  string         `json:"harness"`
	Label    string         `json:"label"`
	Labels   []string       `json:"labels"`
	Vars     map[string]int `json:"vars"`
	SMT      string         `json:"smt"`
	What     string         `json:"what"`
	ID       string         `json:"id"`
}

type labelStat struct {
	Paths      int               `json:"paths"`
	Symbolic   int               `json:"symbolic"`
	Witness    map[string]string `json:"witness,omitempty"`
	Violations int               `json:"violations"`
}

// shared is the state shared by all workers of one harness run.
type shared struct {
	prog    *ssa.Program
	harness *ssa.Function
	hname   string
	verbose bool
	opts    runOpts

	mu         sync.Mutex
	cond       *sync.Cond
	work       [][]uint64
	active     int
	done       bool
	fatal      string
	violations []violationRec
	knownHit   map[string]int
	known      []knownFinding
	labels     map[string]*labelStat
	reach      map[string]int
	funcs      map[string]bool

	// statistics
	paths, pathsDone, pathsPruned, pathsBound, pathsUnknown int
	decisions                                               int64
	steps                                                   int64
	q, qSat, qUnsat, qUnknown, qRetried                     int
	solverSecs                                              float64
	samples                                                 []map[string]interface{}
	obsLogs                                                 []string
	start                                                   time.Time
	extCache                                                sync.Map
	fnInfos                                                 sync.Map
	maxPaths                                                int
	truncated                                               bool
	sizes                                                   types.Sizes
	reflectStructField, reflectMethod, reflectMapIter       types.Type
	valModels                                               []validationModel
	pinObs                                                  []string
}

type runOpts struct {
	workers     int
	stepLimit   int64
	timeoutMs   int
	maxPaths    int
	maxFanout   int
	deadline    time.Time
	solver      solverKind
	crossSolver bool
	pin         map[string]*big.Int // concrete mode: nondet values pinned
	smtLog      string
	trace       bool
	params      map[string]int
	validate    int
}

type pathState struct {
	prefix     []uint64
	pos        int
	trace      []uint64
	pc         []*Term
	steps      int64
	stepLimit  int64
	allocLimit int
	nondet     map[string]*Term
	hashApps   []*hashApp
	called     map[*ssa.Function]bool
	unknown    bool
	obs        []string
	i          *interpreter
	loops      map[*ssa.BasicBlock]int
	ended      bool
	sigs       []*sigRec
	sigRecs    []*sigRecord
	sigCounter int
	sigIDs     map[string]int
	sealRecs   []*sealRecord
	randCounter int
	hstates    map[*value]*hstate
	lastModel  map[string]*big.Int
	known      map[*Term]*Term
	simpMemo   map[*Term]*Term
	pcSet      map[*Term]bool
	reprLens   int
	ghostVer   map[string]int

	initAppsSeen  int
	axiomsPending bool
	firstUnsat    string
}

var paranoid = os.Getenv("GOSE_PARANOID") != ""

func (ps *pathState) noteCall(fn *ssa.Function) {
	if ps.called != nil {
		ps.called[fn] = true
	}
}

func (ps *pathState) tick(fr *frame, n int) {
	ps.steps += int64(n)
	if ps.steps > ps.stepLimit {
		panic(pathAbort{kind: "steps", info: fr.fn.String()})
	}
}

func (ps *pathState) assume(t *Term) {
	if t.isConst() {
		if t.c == 0 {
			panic(pathAbort{kind: "infeasible"})
		}
		return
	}
	ps.pc = append(ps.pc, t)
	if ps.pcSet == nil {
		ps.pcSet = map[*Term]bool{}
	}
	ps.pcSet[t] = true
	if t.op == opEq && t.args[0].isConst() != t.args[1].isConst() {
		if ps.known == nil {
			ps.known = map[*Term]*Term{}
		}
		if t.args[0].isConst() {
			ps.known[t.args[1]] = t.args[0]
		} else {
			ps.known[t.args[0]] = t.args[1]
		}
	}
	ps.simpMemo = nil
	ps.i.sol.assert(t)
	if paranoid && ps.firstUnsat == "" {
		if ps.i.sol.check() == resUnsat {
			buf := make([]byte, 1<<13)
			n := runtime.Stack(buf, false)
			ps.firstUnsat = fmt.Sprintf("path condition became unsat after asserting %s (replaying=%v)\n%s", t.String(), ps.pos <= len(ps.prefix), buf[:n])
			fmt.Fprintln(os.Stderr, "PARANOID:", ps.firstUnsat)
		}
	}
	if ps.lastModel != nil {
		if v, ok := t.eval(ps.lastModel, map[int]*big.Int{}); !ok || v.Sign() == 0 {
			ps.lastModel = nil
		}
	}
}

// decide resolves a symbolic condition to a concrete branch.
func (i *interpreter) decide(c *Term) bool {
	if c.isConst() {
		return c.c != 0
	}
	ps := i.ps
	if ps == nil {
		panic(engineError{"symbolic decision outside a path (package init?)"})
	}
	c = ps.simplify(c)
	if c.isConst() {
		return c.c != 0
	}
	tb := i.tb
	if ps.pos < len(ps.prefix) {
		v := ps.prefix[ps.pos]
		ps.pos++
		ps.trace = append(ps.trace, v)
		if v != 0 {
			ps.assume(c)
		} else {
			ps.assume(tb.Not(c))
		}
		ps.replayed()
		return v != 0
	}
	ps.pos++
	nc := tb.Not(c)
	// Syntactic shortcut: the condition (or its negation) is already a conjunct of the path condition.
	if ps.pcSet[c] {
		ps.trace = append(ps.trace, 1)
		return true
	}
	if ps.pcSet[nc] {
		ps.trace = append(ps.trace, 0)
		return false
	}
	// A cached model of the path condition decides one side without a query.
	var rT, rF satResult
	known := false
	if ps.lastModel != nil {
		if v, ok := c.eval(ps.lastModel, map[int]*big.Int{}); ok {
			known = true
			if v.Sign() != 0 {
				rT = resSat
				rF = i.sol.check(nc)
			} else {
				rF = resSat
				rT = i.sol.check(c)
				if rT == resSat {
					ps.fetchModel()
				}
			}
		}
	}
	if !known {
		rT = i.sol.check(c)
		if rT == resUnsat {
			rF = resSat
		} else {
			if rT == resSat {
				ps.fetchModel()
			}
			rF = i.sol.check(nc)
		}
	}
	if rT == resUnknown || rF == resUnknown {
		ps.unknown = true
	}
	fT, fF := rT != resUnsat, rF != resUnsat
	switch {
	case fT && fF:
		alt := append(append([]uint64(nil), ps.trace...), 0)
		i.sh.push(alt)
		ps.trace = append(ps.trace, 1)
		ps.assume(c)
		return true
	case fT:
		ps.trace = append(ps.trace, 1)
		ps.assume(c)
		return true
	case fF:
		ps.trace = append(ps.trace, 0)
		ps.assume(nc)
		return false
	}
	panic(pathAbort{kind: "infeasible"})
}

// fetchModel caches the solver's current model (call right after a sat answer).
func (ps *pathState) fetchModel() {
	var vars []*Term
	for _, v := range ps.nondet {
		vars = append(vars, v)
	}
	vals, err := ps.i.sol.termValues(vars)
	if err != nil {
		ps.lastModel = nil
		return
	}
	m := make(map[string]*big.Int, len(vars))
	for k, v := range vars {
		m[v.name] = vals[k]
	}
	ps.lastModel = m
}

// concretize resolves a symbolic bit-vector to one of its feasible values,
// forking over all of them (bounded by maxFanout).
func (i *interpreter) concretize(t *Term, what string) uint64 {
	if t.isConst() {
		return t.c
	}
	ps := i.ps
	if ps == nil {
		panic(engineError{"concretize outside a path"})
	}
	t = ps.simplify(t)
	if t.isConst() {
		return t.c
	}
	tb := i.tb
	if t.w > 64 {
		panic(unsupported("concretize wide term"))
	}
	if ps.pos < len(ps.prefix) {
		v := ps.prefix[ps.pos]
		ps.pos++
		ps.trace = append(ps.trace, v)
		ps.assume(tb.Eq(t, tb.Const(t.w, v)))
		ps.replayed()
		return v
	}
	ps.pos++
	var vals []uint64
	excl := tb.tt
	max := i.sh.opts.maxFanout
	for len(vals) <= max {
		r := i.sol.check(excl)
		if r == resUnknown {
			ps.unknown = true
			break
		}
		if r != resSat {
			break
		}
		vs, err := i.sol.termValues([]*Term{t})
		if err != nil {
			panic(engineError{"get-value failed: " + err.Error()})
		}
		v := vs[0].Uint64()
		vals = append(vals, v)
		excl = tb.And(excl, tb.Not(tb.Eq(t, tb.Const(t.w, v))))
	}
	if len(vals) == 0 {
		panic(pathAbort{kind: "infeasible"})
	}
	if len(vals) > max {
		panic(pathAbort{kind: "fanout", info: fmt.Sprintf("%s: more than %d feasible values", what, max)})
	}
	sort.Slice(vals, func(a, b int) bool { return vals[a] < vals[b] })
	for _, v := range vals[1:] {
		alt := append(append([]uint64(nil), ps.trace...), v)
		i.sh.push(alt)
	}
	v := vals[0]
	ps.trace = append(ps.trace, v)
	ps.assume(tb.Eq(t, tb.Const(t.w, v)))
	return v
}

func (s *solver) termValues(ts []*Term) ([]*big.Int, error) {
	if s.alt != nil {
		// the last answer came from a fall-back solver: the model is there
		return s.alt.termValues(ts)
	}
	var names []string
	res := make([]*big.Int, len(ts))
	var idx []int
	for k, t := range ts {
		if t.isConst() {
			res[k] = t.bigVal()
			continue
		}
		s.define(t)
		names = append(names, t.ref())
		idx = append(idx, k)
	}
	if len(names) == 0 {
		return res, nil
	}
	s.send("(get-value (" + strings.Join(names, " ") + "))")
	s.flush()
	resp, err := s.readResponse()
	if err != nil {
		return nil, err
	}
	if strings.Contains(resp, "(error") {
		return nil, fmt.Errorf("solver error: %s", resp)
	}
	toks := tokenize(resp)
	p := 0
	if p < len(toks) && toks[p] == "(" {
		p++
	}
	n := 0
	for p < len(toks) && toks[p] == "(" && n < len(idx) {
		p++
		// skip name (atom or s-expr)
		if toks[p] == "(" {
			d := 0
			for {
				if toks[p] == "(" {
					d++
				} else if toks[p] == ")" {
					d--
				}
				p++
				if d == 0 {
					break
				}
			}
		} else {
			p++
		}
		var val *big.Int
		if toks[p] == "(" {
			if p+2 < len(toks) && toks[p+1] == "_" && strings.HasPrefix(toks[p+2], "bv") {
				val, _ = new(big.Int).SetString(toks[p+2][2:], 10)
			}
			for toks[p] != ")" {
				p++
			}
			p++
		} else {
			val = parseSMTValue(toks[p])
			p++
		}
		if p < len(toks) && toks[p] == ")" {
			p++
		}
		if val == nil {
			val = big.NewInt(0)
		}
		res[idx[n]] = val
		n++
	}
	if n != len(idx) {
		return nil, fmt.Errorf("get-value: parsed %d of %d values from %q", n, len(idx), resp)
	}
	return res, nil
}

func (sh *shared) push(p []uint64) {
	sh.mu.Lock()
	sh.work = append(sh.work, p)
	sh.paths++
	sh.mu.Unlock()
	sh.cond.Signal()
}

func (sh *shared) pop() ([]uint64, bool) {
	sh.mu.Lock()
	defer sh.mu.Unlock()
	for {
		if sh.done {
			return nil, false
		}
		if n := len(sh.work); n > 0 {
			p := sh.work[n-1]
			sh.work = sh.work[:n-1]
			sh.active++
			return p, true
		}
		if sh.active == 0 {
			sh.done = true
			sh.cond.Broadcast()
			return nil, false
		}
		sh.cond.Wait()
	}
}

func (sh *shared) finishPath() {
	sh.mu.Lock()
	sh.active--
	if sh.active == 0 && len(sh.work) == 0 {
		sh.done = true
	}
	if sh.opts.maxPaths > 0 && sh.pathsDone+sh.pathsPruned+sh.pathsBound >= sh.opts.maxPaths {
		sh.done = true
		sh.truncated = true
	}
	if !sh.opts.deadline.IsZero() && time.Now().After(sh.opts.deadline) {
		sh.done = true
		sh.truncated = true
	}
	sh.mu.Unlock()
	sh.cond.Broadcast()
}

func (sh *shared) setFatal(msg string) {
	sh.mu.Lock()
	if sh.fatal == "" {
		sh.fatal = msg
	}
	sh.done = true
	sh.mu.Unlock()
	sh.cond.Broadcast()
}

// model returns the current model of all nondet variables (after a sat check).
func (ps *pathState) model() map[string]string {
	i := ps.i
	var vars []*Term
	var names []string
	for n, v := range ps.nondet {
		names = append(names, n)
		_ = v
	}
	sort.Strings(names)
	for _, n := range names {
		vars = append(vars, ps.nondet[n])
	}
	vals, err := i.sol.termValues(vars)
	m := map[string]string{}
	if err != nil {
		m["__error"] = err.Error()
		return m
	}
	for k, n := range names {
		m[n] = "0x" + vals[k].Text(16)
	}
	return m
}

// replayed is called after each replayed decision. When the prefix is exhausted the path
// condition must be satisfiable (the run that produced the prefix checked it); if it is not, the
// executions of the two runs diverged, which is an engine error, never a verdict.
func (ps *pathState) replayed() {
	if ps.pos != len(ps.prefix) || noReplayCheck {
		return
	}
	switch ps.i.sol.check() {
	case resUnsat:
		panic(engineError{fmt.Sprintf("replay divergence: prefix %v is infeasible on this worker", ps.prefix)})
	case resSat:
		ps.fetchModel()
	case resUnknown:
		ps.unknown = true
	}
}

// violation records a violation on the current path; cond (may be nil) is the
// extra literal under which the solver currently has a model.
func (ps *pathState) violation(label, msg string, extra *Term) {
	i := ps.i
	if i.warm {
		return
	}
	kind := "assert"
	switch {
	case strings.HasPrefix(label, "panic"):
		kind = "panic"
	case label == "alloc":
		kind = "alloc"
	case strings.HasPrefix(label, "bound"):
		kind = "bound"
	}
	var r satResult
	if extra != nil {
		r = i.sol.check(extra)
	} else {
		r = i.sol.check()
	}
	var model map[string]string
	if r == resSat {
		model = ps.model()
		if os.Getenv("GOSE_DEBUG_MODEL") != "" {
			fmt.Fprintf(os.Stderr, "DEBUG violation %s: nondet=%d model=%d trace=%v prefix=%v obs=%v\n", label, len(ps.nondet), len(model), ps.trace, ps.prefix, ps.obs)
		}
	} else {
		model = map[string]string{"__note": "no model (" + r.String() + ")"}
	}
	sh := i.sh
	sh.mu.Lock()
	defer sh.mu.Unlock()
	ls := sh.label(label)
	ls.Violations++
	n := 0
	for _, v := range sh.violations {
		if v.Label == label {
			n++
		}
	}
	if n < 4 {
		if len(ps.obs) > 0 {
			msg += " | observations on the path: " + strings.Join(ps.obs, "; ")
		}
		sh.violations = append(sh.violations, violationRec{
			Harness: sh.hname, Label: label, Kind: kind, Msg: msg, Model: model,
			Trace: append([]uint64(nil), ps.trace...),
		})
	}
}

func (sh *shared) label(l string) *labelStat {
	ls := sh.labels[l]
	if ls == nil {
		ls = &labelStat{}
		sh.labels[l] = ls
	}
	return ls
}

// warmup runs the harness once with every input pinned to zero and all results discarded, so
// that lazily initialised packages (and the hash constants their initialisers compute) are
// in place before the first explored path: package initialisation must not happen at
// path-dependent moments, or replayed prefixes would see a different set of axioms.
func (i *interpreter) warmup() {
	if i.sh.opts.pin != nil {
		return
	}
	i.warm = true
	defer func() { i.warm = false; i.ps = nil }()
	i.tb = newTermTable()
	i.ps = &pathState{stepLimit: 5_000_000, allocLimit: allocLimitDefault, nondet: map[string]*Term{}, i: i}
	func() {
		defer func() { recover() }()
		call(i, nil, token.NoPos, i.sh.harness, nil)
	}()
}

// runPath executes the harness once along the given decision prefix.
func (i *interpreter) runPath(prefix []uint64) {
	sh := i.sh
	i.tb = newTermTable()
	i.sol.reset()
	ps := &pathState{
		prefix: prefix, stepLimit: sh.opts.stepLimit, allocLimit: allocLimitDefault,
		nondet: map[string]*Term{}, called: map[*ssa.Function]bool{}, i: i,
	}
	i.ps = ps
	outcome := "done"
	var info string
	func() {
		defer func() {
			p := recover()
			if p == nil {
				return
			}
			switch p := p.(type) {
			case pathAbort:
				outcome, info = p.kind, p.info
			case targetPanic:
				outcome = "panic"
				info = describePanic(p)
			case unsupportedErr:
				outcome = "unsupported"
				info = p.what
			case engineError:
				outcome = "engine"
				info = p.msg
			default:
				buf := make([]byte, 1<<14)
				n := runtime.Stack(buf, false)
				outcome = "engine"
				info = fmt.Sprintf("%v\n%s", p, buf[:n])
			}
		}()
		call(i, nil, token.NoPos, sh.harness, nil)
	}()
	ps.ended = true
	if sh.opts.pin != nil {
		sh.mu.Lock()
		sh.pinObs = ps.obs
		sh.mu.Unlock()
	} else if outcome == "done" && sh.opts.validate > 0 {
		sh.mu.Lock()
		want := len(sh.valModels) < sh.opts.validate && (sh.pathsDone < 4 || sh.pathsDone%7 == 0)
		sh.mu.Unlock()
		if want && i.sol.check() == resSat {
			m := ps.model()
			sh.mu.Lock()
			if len(sh.valModels) < sh.opts.validate {
				sh.valModels = append(sh.valModels, validationModel{Model: m, Obs: ps.obs, Trace: append([]uint64(nil), ps.trace...)})
			}
			sh.mu.Unlock()
		}
	}
	if outcome == "panic" {
		ps.violation("panic", info, nil)
	}
	sh.mu.Lock()
	sh.steps += ps.steps
	sh.decisions += int64(len(ps.trace))
	for f := range ps.called {
		if f.Pkg != nil && strings.HasPrefix(f.Pkg.Pkg.Path(), "github.com/ChainSafe/gossamer") {
			sh.funcs[f.String()] = true
		}
	}
	switch outcome {
	case "done", "panic", "violation-end":
		sh.pathsDone++
		if ps.unknown {
			sh.pathsUnknown++
		}
		if len(sh.samples) < 3 && outcome == "done" {
			sh.samples = append(sh.samples, map[string]interface{}{
				"trace": fmt.Sprint(ps.trace), "steps": ps.steps, "nondet_vars": len(ps.nondet), "observations": ps.obs,
			})
		}
	case "assume", "infeasible":
		sh.pathsPruned++
	case "steps", "depth", "fanout", "loop":
		sh.pathsBound++
		if len(sh.obsLogs) < 5 {
			sh.obsLogs = append(sh.obsLogs, fmt.Sprintf("bound %s: %s trace=%v", outcome, info, ps.trace))
		}
	case "unsupported":
		if sh.fatal == "" {
			sh.fatal = "unsupported: " + info
		}
		sh.done = true
	case "engine":
		if sh.fatal == "" {
			sh.fatal = "engine error: " + info
		}
		sh.done = true
	}
	sh.mu.Unlock()
	if outcome == "steps" || outcome == "depth" {
		// termination bound exceeded: candidate violation for properties that assert termination
		ps.violation("bound-"+outcome, info, nil)
	}
	i.ps = nil
}

func describePanic(p targetPanic) string {
	switch v := p.v.(type) {
	case iface:
		if s, ok := v.v.(string); ok {
			return s
		}
		if v.t != nil {
			return fmt.Sprintf("%s: %s", v.t, toString(v.v))
		}
	case string:
		return v
	}
	return toString(p.v)
}

func (sh *shared) collectSolverStats(s *solver) {
	sh.mu.Lock()
	sh.q += s.nQueries
	sh.qSat += s.nSat
	sh.qUnsat += s.nUnsat
	sh.qUnknown += s.nUnknown
	sh.qRetried += s.nRetried
	sh.solverSecs += s.secs
	sh.mu.Unlock()
}

func (sh *shared) worker(id int, wg *sync.WaitGroup) {
	defer wg.Done()
	sol, err := newSolver(sh.opts.solver, sh.opts.timeoutMs)
	if err != nil {
		sh.setFatal("cannot start solver: " + err.Error())
		return
	}
	defer sol.close()
	if sh.opts.smtLog != "" && (id == 0 || strings.HasSuffix(sh.opts.smtLog, "-all")) {
		name := sh.opts.smtLog
		if id != 0 {
			name = fmt.Sprintf("%s.w%d", name, id)
		}
		f, _ := os.Create(name)
		sol.log = f
		defer f.Close()
	}
	i := newInterpreter(sh, id)
	i.sol = sol
	defer sh.collectSolverStats(sol)
	i.warmup()
	for {
		p, ok := sh.pop()
		if !ok {
			return
		}
		i.runPath(p)
		sh.finishPath()
	}
}

func (sh *shared) run() {
	sh.cond = sync.NewCond(&sh.mu)
	sh.start = time.Now()
	sh.work = [][]uint64{nil}
	sh.paths = 1
	var wg sync.WaitGroup
	if sh.verbose {
		stop := make(chan struct{})
		defer close(stop)
		go func() {
			tk := time.NewTicker(5 * time.Second)
			defer tk.Stop()
			for {
				select {
				case <-stop:
					return
				case <-tk.C:
					sh.mu.Lock()
					fmt.Fprintf(os.Stderr, "[progress %s] t=%.0fs done=%d pruned=%d bound=%d queue=%d active=%d steps=%d viol=%d\n",
						sh.hname, time.Since(sh.start).Seconds(), sh.pathsDone, sh.pathsPruned, sh.pathsBound, len(sh.work), sh.active, sh.steps, len(sh.violations))
					sh.mu.Unlock()
				}
			}
		}()
	}
	for w := 0; w < sh.opts.workers; w++ {
		wg.Add(1)
		go sh.worker(w, &wg)
	}
	wg.Wait()
}

// simplify rewrites t under what the path condition already fixes: subterms that
// were equated with constants (concretised values) and Boolean conjuncts of the
// path condition. A constant result decides a branch without a solver query.
func (ps *pathState) simplify(t *Term) *Term {
	if t.isConst() || t.op == opVar && ps.known[t] == nil && !ps.pcSet[t] {
		if t.op == opVar && t.w == 0 {
			if ps.pcSet[ps.i.tb.Not(t)] {
				return ps.i.tb.ff
			}
		}
		return t
	}
	if ps.simpMemo == nil {
		ps.simpMemo = map[*Term]*Term{}
	}
	return ps.simp(t)
}

func (ps *pathState) simp(t *Term) *Term {
	if t.isConst() {
		return t
	}
	if r, ok := ps.simpMemo[t]; ok {
		return r
	}
	tb := ps.i.tb
	var r *Term
	if k := ps.known[t]; k != nil {
		r = k
	} else if t.w == 0 && ps.pcSet[t] {
		r = tb.tt
	} else if t.w == 0 && t.op != opNot && ps.pcSet[tb.Not(t)] {
		r = tb.ff
	} else if len(t.args) == 0 || t.op == opRaw {
		r = t
	} else {
		args := make([]*Term, len(t.args))
		changed := false
		for k, a := range t.args {
			args[k] = ps.simp(a)
			if args[k] != a {
				changed = true
			}
		}
		if !changed {
			r = t
		} else {
			r = tb.rebuild(t, args)
		}
	}
	ps.simpMemo[t] = r
	return r
}

// rebuild re-applies t's operator to new arguments (with constant folding).
func (tb *termTable) rebuild(t *Term, a []*Term) *Term {
	switch t.op {
	case opNot:
		return tb.Not(a[0])
	case opAnd:
		return tb.And(a[0], a[1])
	case opOr:
		return tb.Or(a[0], a[1])
	case opIte:
		return tb.Ite(a[0], a[1], a[2])
	case opEq:
		return tb.Eq(a[0], a[1])
	case opAdd, opSub, opMul, opUdiv, opUrem, opSdiv, opSrem, opBvAnd, opBvOr, opBvXor, opShl, opLshr, opAshr:
		return tb.Bin(t.op, a[0], a[1])
	case opUlt, opUle, opSlt, opSle:
		return tb.Cmp(t.op, a[0], a[1])
	case opBvNot:
		return tb.BvNot(a[0])
	case opNeg:
		return tb.Neg(a[0])
	case opConcat:
		return tb.Concat(a[0], a[1])
	case opExtract:
		return tb.Extract(a[0], t.hi, t.lo)
	case opZext:
		return tb.Zext(a[0], t.w)
	case opSext:
		return tb.Sext(a[0], t.w)
	case opUF:
		return tb.UF(t.name, t.w, a...)
	}
	return t
}
