package main

// Symbolic terms: hash-consed, constant-folded SMT-LIB2 terms over Bool and
// fixed-width bit-vectors (the Go widths), plus uninterpreted functions.

import (
	"fmt"
	"math/big"
	"math/bits"
	"strings"
)

type opcode uint8

const (
	opVar opcode = iota
	opConst
	opNot
	opAnd
	opOr
	opIte
	opEq
	opAdd
	opSub
	opMul
	opUdiv
	opUrem
	opSdiv
	opSrem
	opBvAnd
	opBvOr
	opBvXor
	opShl
	opLshr
	opAshr
	opBvNot
	opNeg
	opUlt
	opUle
	opSlt
	opSle
	opConcat
	opExtract
	opZext
	opSext
	opUF
	opRaw
)

var opNames = [...]string{
	opVar: "var", opConst: "const", opNot: "not", opAnd: "and", opOr: "or", opIte: "ite", opEq: "=",
	opAdd: "bvadd", opSub: "bvsub", opMul: "bvmul", opUdiv: "bvudiv", opUrem: "bvurem", opSdiv: "bvsdiv", opSrem: "bvsrem",
	opBvAnd: "bvand", opBvOr: "bvor", opBvXor: "bvxor", opShl: "bvshl", opLshr: "bvlshr", opAshr: "bvashr",
	opBvNot: "bvnot", opNeg: "bvneg", opUlt: "bvult", opUle: "bvule", opSlt: "bvslt", opSle: "bvsle",
	opConcat: "concat", opExtract: "extract", opZext: "zero_extend", opSext: "sign_extend", opUF: "uf", opRaw: "raw",
}

// Term is an SMT term. w==0 means Bool, otherwise a bit-vector of w bits.
type Term struct {
	id   int
	op   opcode
	w    int
	args []*Term
	c    uint64   // constant value (w<=64) or bool (0/1)
	big  *big.Int // constant value for w>64
	name string   // variable or UF name
	hi   int      // extract hi / extension amount
	lo   int
}

func (t *Term) isConst() bool { return t.op == opConst }
func (t *Term) isBool() bool  { return t.w == 0 }

// termTable is a per-path hash-consing table.
type termTable struct {
	m    map[string]*Term
	next int
	tt   *Term
	ff   *Term
	vars []*Term // in creation order
	ufs  map[string]*ufDecl
}

type ufDecl struct {
	name string
	in   []int
	out  int
}

func newTermTable() *termTable {
	tb := &termTable{m: map[string]*Term{}, ufs: map[string]*ufDecl{}}
	tb.tt = tb.intern(&Term{op: opConst, w: 0, c: 1})
	tb.ff = tb.intern(&Term{op: opConst, w: 0, c: 0})
	return tb
}

func (tb *termTable) key(t *Term) string {
	var sb strings.Builder
	fmt.Fprintf(&sb, "%d:%d:", t.op, t.w)
	switch t.op {
	case opVar:
		sb.WriteString(t.name)
	case opConst:
		if t.big != nil {
			sb.WriteString(t.big.Text(16))
		} else {
			fmt.Fprintf(&sb, "%x", t.c)
		}
	case opExtract, opZext, opSext:
		fmt.Fprintf(&sb, "%d,%d;", t.hi, t.lo)
	case opUF, opRaw:
		sb.WriteString(t.name)
		sb.WriteByte(';')
	}
	for _, a := range t.args {
		fmt.Fprintf(&sb, "%d,", a.id)
	}
	return sb.String()
}

func (tb *termTable) intern(t *Term) *Term {
	k := tb.key(t)
	if o, ok := tb.m[k]; ok {
		return o
	}
	tb.next++
	t.id = tb.next
	tb.m[k] = t
	if t.op == opVar {
		tb.vars = append(tb.vars, t)
	}
	return t
}

func mask(w int) uint64 {
	if w >= 64 {
		return ^uint64(0)
	}
	return (uint64(1) << uint(w)) - 1
}

func (tb *termTable) Bool(b bool) *Term {
	if b {
		return tb.tt
	}
	return tb.ff
}

func (tb *termTable) Const(w int, c uint64) *Term {
	if w == 0 {
		return tb.Bool(c != 0)
	}
	if w > 64 {
		return tb.BigConst(w, new(big.Int).SetUint64(c))
	}
	return tb.intern(&Term{op: opConst, w: w, c: c & mask(w)})
}

func (tb *termTable) BigConst(w int, b *big.Int) *Term {
	if w <= 64 {
		return tb.Const(w, b.Uint64())
	}
	m := new(big.Int).Lsh(big.NewInt(1), uint(w))
	m.Sub(m, big.NewInt(1))
	v := new(big.Int).And(b, m)
	return tb.intern(&Term{op: opConst, w: w, big: v})
}

func (tb *termTable) Var(name string, w int) *Term {
	return tb.intern(&Term{op: opVar, w: w, name: name})
}

func (t *Term) bigVal() *big.Int {
	if t.big != nil {
		return t.big
	}
	return new(big.Int).SetUint64(t.c)
}

func sext64(c uint64, w int) int64 {
	if w >= 64 {
		return int64(c)
	}
	sh := uint(64 - w)
	return int64(c<<sh) >> sh
}

func (tb *termTable) Not(a *Term) *Term {
	if a.isConst() {
		return tb.Bool(a.c == 0)
	}
	if a.op == opNot {
		return a.args[0]
	}
	return tb.intern(&Term{op: opNot, w: 0, args: []*Term{a}})
}

func (tb *termTable) And(a, b *Term) *Term {
	if a.isConst() {
		if a.c == 0 {
			return a
		}
		return b
	}
	if b.isConst() {
		if b.c == 0 {
			return b
		}
		return a
	}
	if a == b {
		return a
	}
	return tb.intern(&Term{op: opAnd, w: 0, args: []*Term{a, b}})
}

func (tb *termTable) Or(a, b *Term) *Term {
	if a.isConst() {
		if a.c != 0 {
			return a
		}
		return b
	}
	if b.isConst() {
		if b.c != 0 {
			return b
		}
		return a
	}
	if a == b {
		return a
	}
	return tb.intern(&Term{op: opOr, w: 0, args: []*Term{a, b}})
}

func (tb *termTable) Ite(c, a, b *Term) *Term {
	if c.isConst() {
		if c.c != 0 {
			return a
		}
		return b
	}
	if a == b {
		return a
	}
	if a.w != b.w {
		panic(fmt.Sprintf("ite width mismatch %d %d", a.w, b.w))
	}
	if a.w == 0 && a.isConst() && b.isConst() {
		if a.c != 0 {
			return c
		}
		return tb.Not(c)
	}
	return tb.intern(&Term{op: opIte, w: a.w, args: []*Term{c, a, b}})
}

func (tb *termTable) Eq(a, b *Term) *Term {
	if a.w != b.w {
		panic(fmt.Sprintf("eq width mismatch %d %d", a.w, b.w))
	}
	if a == b {
		return tb.tt
	}
	if a.isConst() && b.isConst() {
		if a.big != nil || b.big != nil {
			return tb.Bool(a.bigVal().Cmp(b.bigVal()) == 0)
		}
		return tb.Bool(a.c == b.c)
	}
	if a.w == 0 {
		if a.isConst() {
			if a.c != 0 {
				return b
			}
			return tb.Not(b)
		}
		if b.isConst() {
			if b.c != 0 {
				return a
			}
			return tb.Not(a)
		}
	}
	if a.id > b.id {
		a, b = b, a
	}
	return tb.intern(&Term{op: opEq, w: 0, args: []*Term{a, b}})
}

func foldBin(op opcode, w int, x, y uint64) (uint64, bool) {
	m := mask(w)
	switch op {
	case opAdd:
		return (x + y) & m, true
	case opSub:
		return (x - y) & m, true
	case opMul:
		return (x * y) & m, true
	case opUdiv:
		if y == 0 {
			return m, true
		}
		return x / y, true
	case opUrem:
		if y == 0 {
			return x, true
		}
		return x % y, true
	case opSdiv:
		sx, sy := sext64(x, w), sext64(y, w)
		if sy == 0 {
			if sx >= 0 {
				return m, true
			}
			return 1, true
		}
		if sy == -1 {
			return uint64(-sx) & m, true
		}
		return uint64(sx/sy) & m, true
	case opSrem:
		sx, sy := sext64(x, w), sext64(y, w)
		if sy == 0 {
			return x, true
		}
		if sy == -1 {
			return 0, true
		}
		return uint64(sx%sy) & m, true
	case opBvAnd:
		return x & y, true
	case opBvOr:
		return x | y, true
	case opBvXor:
		return x ^ y, true
	case opShl:
		if y >= uint64(w) {
			return 0, true
		}
		return (x << y) & m, true
	case opLshr:
		if y >= uint64(w) {
			return 0, true
		}
		return x >> y, true
	case opAshr:
		sx := sext64(x, w)
		if y >= uint64(w) {
			y = uint64(w - 1)
		}
		return uint64(sx>>y) & m, true
	}
	return 0, false
}

func (tb *termTable) Bin(op opcode, a, b *Term) *Term {
	if a.w != b.w {
		panic(fmt.Sprintf("%s width mismatch %d %d", opNames[op], a.w, b.w))
	}
	w := a.w
	if a.isConst() && b.isConst() && w <= 64 {
		if r, ok := foldBin(op, w, a.c, b.c); ok {
			return tb.Const(w, r)
		}
	}
	// identities
	if w <= 64 {
		switch op {
		case opAdd, opBvOr, opBvXor:
			if a.isConst() && a.c == 0 {
				return b
			}
			if b.isConst() && b.c == 0 {
				return a
			}
		case opSub, opShl, opLshr, opAshr:
			if b.isConst() && b.c == 0 {
				return a
			}
		case opBvAnd:
			if a.isConst() && a.c == 0 {
				return a
			}
			if b.isConst() && b.c == 0 {
				return b
			}
			if a.isConst() && a.c == mask(w) {
				return b
			}
			if b.isConst() && b.c == mask(w) {
				return a
			}
		case opMul:
			if a.isConst() && a.c == 1 {
				return b
			}
			if b.isConst() && b.c == 1 {
				return a
			}
			if a.isConst() && a.c == 0 {
				return a
			}
			if b.isConst() && b.c == 0 {
				return b
			}
		case opUdiv:
			if b.isConst() && b.c == 1 {
				return a
			}
		}
		// shifts of byte-extended values by constants: simplify to concat/extract forms
		if b.isConst() && (op == opLshr) && b.c < uint64(w) && b.c > 0 {
			// (x >> k) = zext(extract[w-1:k] x)
			k := int(b.c)
			return tb.Zext(tb.Extract(a, w-1, k), w)
		}
		if b.isConst() && (op == opShl) && b.c < uint64(w) && b.c > 0 {
			k := int(b.c)
			return tb.Concat(tb.Extract(a, w-1-k, 0), tb.Const(k, 0))
		}
		if op == opBvAnd {
			// x & (2^k-1) = zext(extract[k-1:0] x)
			c, o := a, b
			if b.isConst() {
				c, o = b, a
			}
			if c.isConst() && c.c != 0 && (c.c&(c.c+1)) == 0 {
				k := bits.Len64(c.c)
				if k < w {
					return tb.Zext(tb.Extract(o, k-1, 0), w)
				}
			}
		}
	}
	if a == b {
		switch op {
		case opBvAnd, opBvOr:
			return a
		case opBvXor, opSub:
			return tb.Const(w, 0)
		}
	}
	return tb.intern(&Term{op: op, w: w, args: []*Term{a, b}})
}

func (tb *termTable) Cmp(op opcode, a, b *Term) *Term {
	if a.w != b.w {
		panic(fmt.Sprintf("%s width mismatch %d %d", opNames[op], a.w, b.w))
	}
	if a.isConst() && b.isConst() && a.w <= 64 {
		switch op {
		case opUlt:
			return tb.Bool(a.c < b.c)
		case opUle:
			return tb.Bool(a.c <= b.c)
		case opSlt:
			return tb.Bool(sext64(a.c, a.w) < sext64(b.c, a.w))
		case opSle:
			return tb.Bool(sext64(a.c, a.w) <= sext64(b.c, a.w))
		}
	}
	if a == b {
		return tb.Bool(op == opUle || op == opSle)
	}
	if a.w <= 64 {
		if op == opUlt && b.isConst() && b.c == 0 {
			return tb.ff
		}
		if op == opUle && a.isConst() && a.c == 0 {
			return tb.tt
		}
		// zext(x) <u const where const > max(x)
		if (op == opUlt || op == opUle) && b.isConst() && a.op == opZext {
			iw := a.args[0].w
			if iw < 64 && b.c > mask(iw) {
				return tb.tt
			}
		}
	}
	return tb.intern(&Term{op: op, w: 0, args: []*Term{a, b}})
}

func (tb *termTable) BvNot(a *Term) *Term {
	if a.isConst() && a.w <= 64 {
		return tb.Const(a.w, ^a.c)
	}
	if a.op == opBvNot {
		return a.args[0]
	}
	return tb.intern(&Term{op: opBvNot, w: a.w, args: []*Term{a}})
}

func (tb *termTable) Neg(a *Term) *Term {
	if a.isConst() && a.w <= 64 {
		return tb.Const(a.w, -a.c)
	}
	return tb.intern(&Term{op: opNeg, w: a.w, args: []*Term{a}})
}

// Concat: a is the high part.
func (tb *termTable) Concat(a, b *Term) *Term {
	w := a.w + b.w
	if a.isConst() && b.isConst() {
		if w <= 64 {
			return tb.Const(w, a.c<<uint(b.w)|b.c)
		}
		v := new(big.Int).Lsh(a.bigVal(), uint(b.w))
		v.Or(v, b.bigVal())
		return tb.BigConst(w, v)
	}
	// extract[h:m+1] x ++ extract[m:l] x = extract[h:l] x
	if a.op == opExtract && b.op == opExtract && a.args[0] == b.args[0] && a.lo == b.hi+1 {
		return tb.Extract(a.args[0], a.hi, b.lo)
	}
	if a.isConst() && a.w <= 64 && a.c == 0 && a.big == nil {
		// zero high part: canonicalise as zext
		return tb.Zext(b, w)
	}
	return tb.intern(&Term{op: opConcat, w: w, args: []*Term{a, b}})
}

func (tb *termTable) Extract(a *Term, hi, lo int) *Term {
	if hi < lo || hi >= a.w || lo < 0 {
		panic(fmt.Sprintf("bad extract [%d:%d] of width %d", hi, lo, a.w))
	}
	w := hi - lo + 1
	if w == a.w {
		return a
	}
	if a.isConst() {
		if a.big != nil {
			v := new(big.Int).Rsh(a.big, uint(lo))
			return tb.BigConst(w, v)
		}
		return tb.Const(w, a.c>>uint(lo))
	}
	switch a.op {
	case opConcat:
		h, l := a.args[0], a.args[1]
		if hi < l.w {
			return tb.Extract(l, hi, lo)
		}
		if lo >= l.w {
			return tb.Extract(h, hi-l.w, lo-l.w)
		}
		return tb.Concat(tb.Extract(h, hi-l.w, 0), tb.Extract(l, l.w-1, lo))
	case opExtract:
		return tb.Extract(a.args[0], a.lo+hi, a.lo+lo)
	case opZext:
		in := a.args[0]
		if hi < in.w {
			return tb.Extract(in, hi, lo)
		}
		if lo >= in.w {
			return tb.Const(w, 0)
		}
		return tb.Zext(tb.Extract(in, in.w-1, lo), w)
	case opSext:
		in := a.args[0]
		if hi < in.w {
			return tb.Extract(in, hi, lo)
		}
	case opBvAnd, opBvOr, opBvXor:
		return tb.Bin(a.op, tb.Extract(a.args[0], hi, lo), tb.Extract(a.args[1], hi, lo))
	case opIte:
		if a.args[1].isConst() || a.args[2].isConst() {
			return tb.Ite(a.args[0], tb.Extract(a.args[1], hi, lo), tb.Extract(a.args[2], hi, lo))
		}
	}
	return tb.intern(&Term{op: opExtract, w: w, args: []*Term{a}, hi: hi, lo: lo})
}

// Zext extends a to width w (w >= a.w).
func (tb *termTable) Zext(a *Term, w int) *Term {
	if w == a.w {
		return a
	}
	if w < a.w {
		return tb.Extract(a, w-1, 0)
	}
	if a.isConst() && a.big == nil {
		if w <= 64 {
			return tb.Const(w, a.c)
		}
		return tb.BigConst(w, new(big.Int).SetUint64(a.c))
	}
	if a.op == opZext {
		return tb.Zext(a.args[0], w)
	}
	return tb.intern(&Term{op: opZext, w: w, args: []*Term{a}, hi: w - a.w})
}

func (tb *termTable) Sext(a *Term, w int) *Term {
	if w == a.w {
		return a
	}
	if w < a.w {
		return tb.Extract(a, w-1, 0)
	}
	if a.isConst() && w <= 64 {
		return tb.Const(w, uint64(sext64(a.c, a.w)))
	}
	if a.op == opZext {
		// sign bit is zero
		return tb.Zext(a.args[0], w)
	}
	return tb.intern(&Term{op: opSext, w: w, args: []*Term{a}, hi: w - a.w})
}

// UF applies uninterpreted function name to args.
func (tb *termTable) UF(name string, out int, args ...*Term) *Term {
	d := tb.ufs[name]
	if d == nil {
		d = &ufDecl{name: name, out: out}
		for _, a := range args {
			d.in = append(d.in, a.w)
		}
		tb.ufs[name] = d
	}
	return tb.intern(&Term{op: opUF, w: out, name: name, args: args})
}

func sortStr(w int) string {
	if w == 0 {
		return "Bool"
	}
	return fmt.Sprintf("(_ BitVec %d)", w)
}

func (t *Term) constStr() string {
	if t.w == 0 {
		if t.c != 0 {
			return "true"
		}
		return "false"
	}
	if t.big != nil {
		s := t.big.Text(2)
		if len(s) < t.w {
			s = strings.Repeat("0", t.w-len(s)) + s
		}
		return "#b" + s
	}
	if t.w%4 == 0 {
		return fmt.Sprintf("#x%0*x", t.w/4, t.c)
	}
	return fmt.Sprintf("#b%0*b", t.w, t.c)
}

func smtName(s string) string {
	ok := true
	for _, r := range s {
		if !(r >= 'a' && r <= 'z' || r >= 'A' && r <= 'Z' || r >= '0' && r <= '9' || r == '_' || r == '.') {
			ok = false
			break
		}
	}
	if ok && s != "" {
		return s
	}
	return "|" + strings.ReplaceAll(s, "|", "!") + "|"
}

// ref returns the text used to refer to t inside other terms.
func (t *Term) ref() string {
	switch t.op {
	case opConst:
		return t.constStr()
	case opVar:
		return smtName(t.name)
	}
	return fmt.Sprintf("t%d", t.id)
}

// body returns the defining expression of a non-leaf term.
func (t *Term) body() string {
	var sb strings.Builder
	switch t.op {
	case opExtract:
		fmt.Fprintf(&sb, "((_ extract %d %d) %s)", t.hi, t.lo, t.args[0].ref())
		return sb.String()
	case opZext:
		fmt.Fprintf(&sb, "((_ zero_extend %d) %s)", t.hi, t.args[0].ref())
		return sb.String()
	case opSext:
		fmt.Fprintf(&sb, "((_ sign_extend %d) %s)", t.hi, t.args[0].ref())
		return sb.String()
	case opRaw:
		return t.name
	case opUF:
		sb.WriteString("(" + smtName(t.name))
	default:
		sb.WriteString("(" + opNames[t.op])
	}
	for _, a := range t.args {
		sb.WriteByte(' ')
		sb.WriteString(a.ref())
	}
	sb.WriteByte(')')
	return sb.String()
}

// String renders the full term (for diagnostics only; may be large).
func (t *Term) String() string {
	return t.str(0)
}

func (t *Term) str(d int) string {
	if t.op == opConst || t.op == opVar {
		return t.ref()
	}
	if d > 6 {
		return "…"
	}
	var sb strings.Builder
	switch t.op {
	case opExtract:
		fmt.Fprintf(&sb, "(extract[%d:%d] %s)", t.hi, t.lo, t.args[0].str(d+1))
		return sb.String()
	case opUF:
		sb.WriteString("(" + t.name)
	default:
		sb.WriteString("(" + opNames[t.op])
	}
	for _, a := range t.args {
		sb.WriteByte(' ')
		sb.WriteString(a.str(d + 1))
	}
	sb.WriteByte(')')
	return sb.String()
}

// eval evaluates t under a model (variable name -> value). UFs are evaluated
// via the supplied callback (nil => cannot evaluate).
func (t *Term) eval(model map[string]*big.Int, memo map[int]*big.Int) (*big.Int, bool) {
	if v, ok := memo[t.id]; ok {
		return v, v != nil
	}
	r, ok := t.eval1(model, memo)
	if !ok {
		memo[t.id] = nil
		return nil, false
	}
	memo[t.id] = r
	return r, true
}

func bigMask(w int) *big.Int {
	m := new(big.Int).Lsh(big.NewInt(1), uint(w))
	return m.Sub(m, big.NewInt(1))
}

func (t *Term) eval1(model map[string]*big.Int, memo map[int]*big.Int) (*big.Int, bool) {
	switch t.op {
	case opConst:
		return t.bigVal(), true
	case opVar:
		v, ok := model[t.name]
		if !ok {
			return big.NewInt(0), true
		}
		return v, true
	case opUF, opRaw:
		return nil, false
	}
	av := make([]*big.Int, len(t.args))
	for i, a := range t.args {
		v, ok := a.eval(model, memo)
		if !ok {
			return nil, false
		}
		av[i] = v
	}
	b2i := func(b bool) *big.Int {
		if b {
			return big.NewInt(1)
		}
		return big.NewInt(0)
	}
	toSigned := func(v *big.Int, w int) *big.Int {
		if v.Bit(w-1) == 1 {
			return new(big.Int).Sub(v, new(big.Int).Lsh(big.NewInt(1), uint(w)))
		}
		return v
	}
	wrap := func(v *big.Int, w int) *big.Int {
		return new(big.Int).And(v, bigMask(w))
	}
	switch t.op {
	case opNot:
		return b2i(av[0].Sign() == 0), true
	case opAnd:
		return b2i(av[0].Sign() != 0 && av[1].Sign() != 0), true
	case opOr:
		return b2i(av[0].Sign() != 0 || av[1].Sign() != 0), true
	case opIte:
		if av[0].Sign() != 0 {
			return av[1], true
		}
		return av[2], true
	case opEq:
		return b2i(av[0].Cmp(av[1]) == 0), true
	case opAdd:
		return wrap(new(big.Int).Add(av[0], av[1]), t.w), true
	case opSub:
		return wrap(new(big.Int).Sub(av[0], av[1]), t.w), true
	case opMul:
		return wrap(new(big.Int).Mul(av[0], av[1]), t.w), true
	case opUdiv:
		if av[1].Sign() == 0 {
			return bigMask(t.w), true
		}
		return new(big.Int).Quo(av[0], av[1]), true
	case opUrem:
		if av[1].Sign() == 0 {
			return av[0], true
		}
		return new(big.Int).Rem(av[0], av[1]), true
	case opSdiv:
		x, y := toSigned(av[0], t.w), toSigned(av[1], t.w)
		if y.Sign() == 0 {
			if x.Sign() >= 0 {
				return bigMask(t.w), true
			}
			return big.NewInt(1), true
		}
		return wrap(new(big.Int).Quo(x, y), t.w), true
	case opSrem:
		x, y := toSigned(av[0], t.w), toSigned(av[1], t.w)
		if y.Sign() == 0 {
			return av[0], true
		}
		return wrap(new(big.Int).Rem(x, y), t.w), true
	case opBvAnd:
		return new(big.Int).And(av[0], av[1]), true
	case opBvOr:
		return new(big.Int).Or(av[0], av[1]), true
	case opBvXor:
		return new(big.Int).Xor(av[0], av[1]), true
	case opShl:
		if av[1].Cmp(big.NewInt(int64(t.w))) >= 0 {
			return big.NewInt(0), true
		}
		return wrap(new(big.Int).Lsh(av[0], uint(av[1].Uint64())), t.w), true
	case opLshr:
		if av[1].Cmp(big.NewInt(int64(t.w))) >= 0 {
			return big.NewInt(0), true
		}
		return new(big.Int).Rsh(av[0], uint(av[1].Uint64())), true
	case opAshr:
		x := toSigned(av[0], t.w)
		sh := uint(t.w - 1)
		if av[1].Cmp(big.NewInt(int64(t.w))) < 0 {
			sh = uint(av[1].Uint64())
		}
		return wrap(new(big.Int).Rsh(x, sh), t.w), true
	case opBvNot:
		return new(big.Int).Xor(av[0], bigMask(t.w)), true
	case opNeg:
		return wrap(new(big.Int).Neg(av[0]), t.w), true
	case opUlt:
		return b2i(av[0].Cmp(av[1]) < 0), true
	case opUle:
		return b2i(av[0].Cmp(av[1]) <= 0), true
	case opSlt:
		w := t.args[0].w
		return b2i(toSigned(av[0], w).Cmp(toSigned(av[1], w)) < 0), true
	case opSle:
		w := t.args[0].w
		return b2i(toSigned(av[0], w).Cmp(toSigned(av[1], w)) <= 0), true
	case opConcat:
		v := new(big.Int).Lsh(av[0], uint(t.args[1].w))
		return v.Or(v, av[1]), true
	case opExtract:
		v := new(big.Int).Rsh(av[0], uint(t.lo))
		return v.And(v, bigMask(t.w)), true
	case opZext:
		return av[0], true
	case opSext:
		return wrap(toSigned(av[0], t.args[0].w), t.w), true
	}
	return nil, false
}
