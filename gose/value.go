// Copyright 2013 The Go Authors. All rights reserved.
// Use of this source code is governed by a BSD-style
// license that can be found in the LICENSE file.

package main

// Values
//
// All interpreter values are "boxed" in the empty interface, value.
// The range of possible dynamic types within value are:
//
// - bool
// - numbers (all built-in int/float/complex types are distinguished)
// - string
// - map[value]value --- maps for which  usesBuiltinMap(keyType)
//   *hashmap        --- maps for which !usesBuiltinMap(keyType)
// - chan value
// - []value --- slices
// - iface --- interfaces.
// - structure --- structs.  Fields are ordered and accessed by numeric indices.
// - array --- arrays.
// - *value --- pointers.  Careful: *value is a distinct type from *array etc.
// - *ssa.Function \
//   *ssa.Builtin   } --- functions.  A nil 'func' is always of type *ssa.Function.
//   *closure      /
// - tuple --- as returned by Return, Next, "value,ok" modes, etc.
// - iter --- iterators from 'range' over map or string.
// - bad --- a poison pill for locals that have gone out of scope.
// - rtype -- the interpreter's concrete implementation of reflect.Type
// - **deferred -- the address of a frame's defer stack for a Defer._Stack.
//
// Note that nil is not on this list.
//
// Pay close attention to whether or not the dynamic type is a pointer.
// The compiler cannot help you since value is an empty interface.

import (
	"bytes"
	"fmt"
	"go/types"

	"golang.org/x/tools/go/ssa"
)

type value interface{}

type tuple []value

type array []value

type iface struct {
	t types.Type // never an "untyped" type
	v value
}

type structure []value

// For map, array, *array, slice, string or channel.
type iter interface {
	// next returns a Tuple (key, value, ok).
	// key and value are unaliased, e.g. copies of the sequence element.
	next() tuple
}

type closure struct {
	Fn  *ssa.Function
	Env []value
}

type bad struct{}

type rtype struct {
	t types.Type
	// ro marks a reflect.Value obtained through an unexported struct field (reflect's flagRO):
	// CanInterface and CanSet report false for it. Always false in reflect.Type values.
	ro bool
}

// reflect.Value struct values don't have a fixed shape, since the
// payload can be a scalar or an aggregate depending on the instance.
// So store (and load) can't simply use recursion over the shape of the
// rhs value, or the lhs, to copy the value; we need the static type
// information.  (We can't make reflect.Value a new basic data type
// because its "structness" is exposed to Go programs.)

// load returns the value of type T in *addr.
func load(T types.Type, addr *value) value {
	switch T := T.Underlying().(type) {
	case *types.Struct:
		v := (*addr).(structure)
		a := make(structure, len(v))
		for i := range a {
			a[i] = load(T.Field(i).Type(), &v[i])
		}
		return a
	case *types.Array:
		v := (*addr).(array)
		a := make(array, len(v))
		for i := range a {
			a[i] = load(T.Elem(), &v[i])
		}
		return a
	default:
		return *addr
	}
}

// store stores value v of type T into *addr.
func store(T types.Type, addr *value, v value) {
	switch T := T.Underlying().(type) {
	case *types.Struct:
		lhs := (*addr).(structure)
		rhs := v.(structure)
		for i := range lhs {
			store(T.Field(i).Type(), &lhs[i], rhs[i])
		}
	case *types.Array:
		lhs := (*addr).(array)
		rhs := v.(array)
		for i := range lhs {
			store(T.Elem(), &lhs[i], rhs[i])
		}
	default:
		*addr = v
	}
}

// Prints in the style of built-in println.
// (More or less; in gc println is actually a compiler intrinsic and
// can distinguish println(1) from println(interface{}(1)).)
func writeValue(buf *bytes.Buffer, v value) {
	switch v := v.(type) {
	case nil, bool, int, int8, int16, int32, int64, uint, uint8, uint16, uint32, uint64, uintptr, float32, float64, complex64, complex128, string:
		fmt.Fprintf(buf, "%v", v)

	case chan value:
		fmt.Fprintf(buf, "%v", v) // (an address)

	case *value:
		if v == nil {
			buf.WriteString("<nil>")
		} else {
			fmt.Fprintf(buf, "%p", v)
		}

	case iface:
		fmt.Fprintf(buf, "(%s, ", v.t)
		writeValue(buf, v.v)
		buf.WriteString(")")

	case structure:
		buf.WriteString("{")
		for i, e := range v {
			if i > 0 {
				buf.WriteString(" ")
			}
			writeValue(buf, e)
		}
		buf.WriteString("}")

	case array:
		buf.WriteString("[")
		for i, e := range v {
			if i > 0 {
				buf.WriteString(" ")
			}
			writeValue(buf, e)
		}
		buf.WriteString("]")

	case []value:
		buf.WriteString("[")
		for i, e := range v {
			if i > 0 {
				buf.WriteString(" ")
			}
			writeValue(buf, e)
		}
		buf.WriteString("]")

	case *ssa.Function, *ssa.Builtin, *closure:
		fmt.Fprintf(buf, "%p", v) // (an address)

	case rtype:
		buf.WriteString(v.t.String())

	case tuple:
		// Unreachable in well-formed Go programs
		buf.WriteString("(")
		for i, e := range v {
			if i > 0 {
				buf.WriteString(", ")
			}
			writeValue(buf, e)
		}
		buf.WriteString(")")

	default:
		fmt.Fprintf(buf, "<%T>", v)
	}
}

// Implements printing of Go values in the style of built-in println.
func toString(v value) string {
	var b bytes.Buffer
	writeValue(&b, v)
	return b.String()
}

