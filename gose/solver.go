package main

// One long-lived SMT solver process per worker, spoken to in SMT-LIB2 text.

import (
	"bufio"
	"fmt"
	"io"
	"math/big"
	"os"
	"os/exec"
	"strings"
	"time"
)

type solverKind int

const (
	solverZ3 solverKind = iota
	solverZ3New
	solverCVC5
)

type solver struct {
	kind    solverKind
	cmd     *exec.Cmd
	in      io.WriteCloser
	out     *bufio.Reader
	emitted map[int]bool
	ufDecl  map[string]bool
	timeout int // ms
	log     io.Writer

	// statistics
	nQueries, nSat, nUnsat, nUnknown int
	secs                             float64
	pending                          strings.Builder
	asserted                         []*Term
	isFallback                       bool
	nRetried                         int
	alt                              *solver // fall-back process holding the model of the last answer, if it gave it
}

func newSolver(kind solverKind, timeoutMs int) (*solver, error) {
	s := &solver{kind: kind, timeout: timeoutMs}
	if err := s.start(); err != nil {
		return nil, err
	}
	return s, nil
}

func (s *solver) start() error {
	var cmd *exec.Cmd
	switch s.kind {
	case solverZ3:
		cmd = exec.Command("z3", "-in")
	case solverZ3New:
		cmd = exec.Command("z3-new", "-in")
	case solverCVC5:
		cmd = exec.Command("cvc5", "--incremental", "--lang=smt2", "--produce-models", fmt.Sprintf("--tlimit-per=%d", s.timeout))
	}
	in, err := cmd.StdinPipe()
	if err != nil {
		return err
	}
	out, err := cmd.StdoutPipe()
	if err != nil {
		return err
	}
	cmd.Stderr = nil
	// glibc malloc tuning: without it z3 returns memory to the OS after every
	// check and spends most of its time in page faults (measured 7.6x slower).
	cmd.Env = append(os.Environ(), "MALLOC_TRIM_THRESHOLD_=4000000000", "MALLOC_TOP_PAD_=268435456", "MALLOC_MMAP_THRESHOLD_=4000000000")
	if err := cmd.Start(); err != nil {
		return err
	}
	s.cmd, s.in, s.out = cmd, in, bufio.NewReaderSize(out, 1<<16)
	s.resetState()
	return nil
}

func (s *solver) resetState() {
	s.asserted = s.asserted[:0]
	s.emitted = map[int]bool{}
	s.ufDecl = map[string]bool{}
}

func (s *solver) close() {
	if s.cmd != nil {
		s.in.Close()
		s.cmd.Process.Kill()
		s.cmd.Wait()
		s.cmd = nil
	}
}

func (s *solver) send(line string) {
	s.pending.WriteString(line)
	s.pending.WriteByte('\n')
}

func (s *solver) flush() {
	if s.pending.Len() == 0 {
		return
	}
	if s.log != nil {
		io.WriteString(s.log, s.pending.String())
	}
	io.WriteString(s.in, s.pending.String())
	s.pending.Reset()
}

// reset clears all assertions and declarations (start of a new path).
func (s *solver) reset() {
	s.dropAlt()
	s.pending.Reset()
	if s.kind == solverCVC5 {
		// cvc5 1.0: (reset) works but loses options set on the command line? They persist.
		s.send("(reset)")
		s.send("(set-option :produce-models true)")
		s.send("(set-logic ALL)")
	} else {
		s.send("(reset)")
		s.send(fmt.Sprintf("(set-option :timeout %d)", s.timeout))
	}
	s.resetState()
}

// define makes sure t and all its subterms are known to the solver.
func (s *solver) define(t *Term) {
	if t.op == opConst || s.emitted[t.id] {
		return
	}
	// iterative post-order to avoid deep recursion
	type fr struct {
		t *Term
		i int
	}
	stack := []fr{{t, 0}}
	for len(stack) > 0 {
		top := &stack[len(stack)-1]
		if top.t.op == opConst || s.emitted[top.t.id] {
			stack = stack[:len(stack)-1]
			continue
		}
		if top.i < len(top.t.args) {
			a := top.t.args[top.i]
			top.i++
			if a.op != opConst && !s.emitted[a.id] {
				stack = append(stack, fr{a, 0})
			}
			continue
		}
		x := top.t
		stack = stack[:len(stack)-1]
		s.emitted[x.id] = true
		switch x.op {
		case opVar:
			s.send(fmt.Sprintf("(declare-const %s %s)", smtName(x.name), sortStr(x.w)))
		case opUF:
			if !s.ufDecl[x.name] {
				s.ufDecl[x.name] = true
				var sb strings.Builder
				for _, a := range x.args {
					sb.WriteString(sortStr(a.w))
					sb.WriteByte(' ')
				}
				s.send(fmt.Sprintf("(declare-fun %s (%s) %s)", smtName(x.name), sb.String(), sortStr(x.w)))
			}
			s.send(fmt.Sprintf("(define-fun t%d () %s %s)", x.id, sortStr(x.w), x.body()))
		default:
			s.send(fmt.Sprintf("(define-fun t%d () %s %s)", x.id, sortStr(x.w), x.body()))
		}
	}
}

func (s *solver) assert(t *Term) {
	if t.isConst() {
		if t.c == 0 {
			s.send("(assert false)")
		}
		return
	}
	s.define(t)
	s.send("(assert " + t.ref() + ")")
	s.asserted = append(s.asserted, t)
}

type satResult int

const (
	resUnsat satResult = iota
	resSat
	resUnknown
)

func (r satResult) String() string { return [...]string{"unsat", "sat", "unknown"}[r] }

// readResponse reads one s-expression or atom from the solver output.
func (s *solver) readResponse() (string, error) {
	var sb strings.Builder
	depth := 0
	started := false
	for {
		line, err := s.out.ReadString('\n')
		if err != nil {
			return sb.String(), err
		}
		for _, ch := range line {
			if ch == '(' {
				depth++
			} else if ch == ')' {
				depth--
			}
		}
		if strings.TrimSpace(line) != "" {
			started = true
		}
		sb.WriteString(line)
		if started && depth <= 0 {
			return strings.TrimSpace(sb.String()), nil
		}
	}
}

// check asks whether the current assertions plus the given literals are satisfiable.
func (s *solver) check(extra ...*Term) satResult {
	s.dropAlt()
	var lits []string
	for _, t := range extra {
		if t.isConst() {
			if t.c == 0 {
				return resUnsat
			}
			continue
		}
		if t.op == opNot && !t.args[0].isConst() {
			s.define(t.args[0])
			lits = append(lits, "(not "+t.args[0].ref()+")")
		} else {
			s.define(t)
			lits = append(lits, t.ref())
		}
	}
	if len(lits) == 0 {
		s.send("(check-sat)")
	} else if s.kind == solverCVC5 {
		// cvc5 1.0 check-sat-assuming accepts terms
		s.send("(check-sat-assuming (" + strings.Join(lits, " ") + "))")
	} else {
		s.send("(check-sat-assuming (" + strings.Join(lits, " ") + "))")
	}
	t0 := time.Now()
	s.flush()
	resp, err := s.readResponse()
	s.secs += time.Since(t0).Seconds()
	s.nQueries++
	if err != nil {
		// solver died: restart; result unknown
		s.close()
		s.start()
		s.nUnknown++
		return resUnknown
	}
	switch {
	case resp == "sat":
		s.nSat++
		return resSat
	case resp == "unsat":
		s.nUnsat++
		return resUnsat
	default:
		if strings.Contains(resp, "(error") {
			fmt.Printf("SOLVER-ERROR: %s\n", resp)
			s.nUnknown++
			return resUnknown
		}
		// inconclusive (time-out): retry the whole query one-shot on the other solvers
		if !s.isFallback {
			for _, kind := range []solverKind{solverCVC5, solverZ3New, solverZ3} {
				if kind == s.kind {
					continue
				}
				if r := s.retryElsewhere(kind, extra); r != resUnknown {
					s.nRetried++
					if r == resSat {
						s.nSat++
					} else {
						s.nUnsat++
					}
					return r
				}
			}
		}
		s.nUnknown++
		return resUnknown
	}
}

// retryElsewhere re-asks the current assertions plus extra on a fresh process of another solver.
func (s *solver) retryElsewhere(kind solverKind, extra []*Term) satResult {
	o := &solver{kind: kind, timeout: 120000, isFallback: true}
	if err := o.start(); err != nil {
		return resUnknown
	}
	o.reset()
	for _, t := range s.asserted {
		o.assert(t)
	}
	t0 := time.Now()
	r := o.check(extra...)
	s.secs += time.Since(t0).Seconds()
	if r == resSat {
		// keep the process: it holds the model of this answer (see termValues)
		s.alt = o
	} else {
		o.close()
	}
	return r
}

// dropAlt forgets the fall-back process that answered the previous query.
func (s *solver) dropAlt() {
	if s.alt != nil {
		s.alt.close()
		s.alt = nil
	}
}

// values fetches model values for the given variable terms after a sat answer.
func (s *solver) values(vars []*Term) (map[string]*big.Int, error) {
	res := map[string]*big.Int{}
	if len(vars) == 0 {
		return res, nil
	}
	var names []string
	for _, v := range vars {
		s.define(v)
		names = append(names, v.ref())
	}
	s.send("(get-value (" + strings.Join(names, " ") + "))")
	s.flush()
	resp, err := s.readResponse()
	if err != nil {
		return nil, err
	}
	if strings.Contains(resp, "(error") {
		return nil, fmt.Errorf("solver error: %s", resp)
	}
	// parse ((name val) (name val) ...)
	toks := tokenize(resp)
	// expect ( ( name val ) ... )
	i := 0
	if i < len(toks) && toks[i] == "(" {
		i++
	}
	vi := 0
	for i < len(toks) && toks[i] == "(" {
		i++
		// name may be an s-expr? for vars it's a symbol
		if i >= len(toks) {
			break
		}
		i++ // name
		// value: atom or (_ bvN w)
		var val *big.Int
		if toks[i] == "(" {
			// (_ bv123 8)
			if i+3 < len(toks) && toks[i+1] == "_" && strings.HasPrefix(toks[i+2], "bv") {
				val, _ = new(big.Int).SetString(toks[i+2][2:], 10)
			}
			for toks[i] != ")" {
				i++
			}
			i++
		} else {
			val = parseSMTValue(toks[i])
			i++
		}
		if i < len(toks) && toks[i] == ")" {
			i++
		}
		if vi < len(vars) {
			if val == nil {
				val = big.NewInt(0)
			}
			res[vars[vi].name] = val
		}
		vi++
	}
	return res, nil
}

func parseSMTValue(tok string) *big.Int {
	switch {
	case tok == "true":
		return big.NewInt(1)
	case tok == "false":
		return big.NewInt(0)
	case strings.HasPrefix(tok, "#x"):
		v, _ := new(big.Int).SetString(tok[2:], 16)
		return v
	case strings.HasPrefix(tok, "#b"):
		v, _ := new(big.Int).SetString(tok[2:], 2)
		return v
	}
	return nil
}

func tokenize(s string) []string {
	var toks []string
	i := 0
	for i < len(s) {
		c := s[i]
		switch {
		case c == '(' || c == ')':
			toks = append(toks, string(c))
			i++
		case c == ' ' || c == '\n' || c == '\t' || c == '\r':
			i++
		case c == '|':
			j := strings.IndexByte(s[i+1:], '|')
			if j < 0 {
				toks = append(toks, s[i:])
				i = len(s)
			} else {
				toks = append(toks, s[i:i+j+2])
				i += j + 2
			}
		default:
			j := i
			for j < len(s) && !strings.ContainsRune("() \n\t\r", rune(s[j])) {
				j++
			}
			toks = append(toks, s[i:j])
			i = j
		}
	}
	return toks
}
