module gose

go 1.23

require (
	github.com/OneOfOne/xxhash v1.2.8
	golang.org/x/crypto v0.28.0
	golang.org/x/tools v0.29.0
)

require (
	golang.org/x/mod v0.22.0 // indirect
	golang.org/x/sync v0.10.0 // indirect
	golang.org/x/sys v0.29.0 // indirect
)
