package main

// Symbolic-aware operators. Concrete operands are delegated to the
// original interp code (binopC, unopC, convC).

import (
	"bytes"
	"fmt"
	"go/token"
	"go/types"
	"os"
	"unsafe"

	"golang.org/x/tools/go/ssa"
)

// slicePtr is the result of unsafe.SliceData / unsafe.StringData.
type slicePtr struct {
	s   []value
	str value // non-nil for StringData
}

func isNilable(t types.Type) bool {
	switch t.Underlying().(type) {
	case *types.Map, *types.Signature, *types.Slice:
		return true
	}
	return false
}

func eqnil(i *interpreter, t types.Type, x, y value) value {
	if isNilable(t) {
		return isNilValue(x) == isNilValue(y)
	}
	return i.equalsV(t, x, y)
}

func isNilValue(x value) bool {
	switch x := x.(type) {
	case *gmap:
		return x == nil
	case *ssa.Function:
		return x == nil
	case *closure:
		return x == nil
	case *nativeFunc:
		return x == nil
	case []value:
		return x == nil
	case *ssa.Builtin:
		return x == nil
	case *opaqueSlice:
		return false
	}
	panic(fmt.Sprintf("isNilValue: %T", x))
}

func binop(i *interpreter, op token.Token, tx, ty types.Type, x, y value) value {
	switch op {
	case token.EQL:
		return eqnil(i, tx, x, y)
	case token.NEQ:
		return i.notV(eqnil(i, tx, x, y))
	}
	_, xs := x.(*Term)
	_, ys := y.(*Term)
	if xs || ys {
		return i.symBinop(op, tx, ty, x, y)
	}
	_, xss := x.(symstr)
	_, yss := y.(symstr)
	if xss || yss {
		xb, yb := strBytes(x), strBytes(y)
		switch op {
		case token.ADD:
			r := make(symstr, 0, len(xb)+len(yb))
			r = append(r, xb...)
			r = append(r, yb...)
			return normStr(r)
		case token.LSS:
			return i.bytesLess(xb, yb, false)
		case token.LEQ:
			return i.bytesLess(xb, yb, true)
		case token.GTR:
			return i.bytesLess(yb, xb, false)
		case token.GEQ:
			return i.bytesLess(yb, xb, true)
		}
		panic(fmt.Sprintf("invalid string op %s", op))
	}
	if op == token.QUO || op == token.REM {
		if b, _, ok := intBits(y); ok && b == 0 {
			panic(targetPanic{i.runtimeError("runtime error: integer divide by zero")})
		}
	}
	return binopC(op, tx, x, y)
}

func (i *interpreter) symBinop(op token.Token, tx, ty types.Type, x, y value) value {
	tb := i.tb
	ik, ok := basicIntKind(tx)
	if !ok {
		// bool operands?
		panic(fmt.Sprintf("symbolic binop %s on %s", op, tx))
	}
	a := i.toTerm(x)
	var r *Term
	switch op {
	case token.SHL, token.SHR:
		yk, _ := basicIntKind(ty)
		b := i.toTerm(y)
		if yk.signed {
			neg := tb.Cmp(opSlt, b, tb.Const(b.w, 0))
			if i.truth(fromTerm(types.Typ[types.Bool], neg)) {
				panic(targetPanic{i.runtimeError("runtime error: negative shift amount")})
			}
		}
		var sop opcode
		switch {
		case op == token.SHL:
			sop = opShl
		case ik.signed:
			sop = opAshr
		default:
			sop = opLshr
		}
		if b.w <= a.w {
			r = tb.Bin(sop, a, tb.Zext(b, a.w))
		} else {
			big := tb.Cmp(opUle, tb.Const(b.w, uint64(a.w)), b)
			sh := tb.Bin(sop, a, tb.Extract(b, a.w-1, 0))
			var over *Term
			if sop == opAshr {
				over = tb.Bin(opAshr, a, tb.Const(a.w, uint64(a.w-1)))
			} else {
				over = tb.Const(a.w, 0)
			}
			r = tb.Ite(big, over, sh)
		}
		return fromTerm(tx, r)
	}
	b := i.toTerm(y)
	switch op {
	case token.ADD:
		r = tb.Bin(opAdd, a, b)
	case token.SUB:
		r = tb.Bin(opSub, a, b)
	case token.MUL:
		r = tb.Bin(opMul, a, b)
	case token.QUO, token.REM:
		z := tb.Eq(b, tb.Const(b.w, 0))
		if i.truth(fromTerm(types.Typ[types.Bool], z)) {
			panic(targetPanic{i.runtimeError("runtime error: integer divide by zero")})
		}
		switch {
		case op == token.QUO && ik.signed:
			r = tb.Bin(opSdiv, a, b)
		case op == token.QUO:
			r = tb.Bin(opUdiv, a, b)
		case ik.signed:
			r = tb.Bin(opSrem, a, b)
		default:
			r = tb.Bin(opUrem, a, b)
		}
	case token.AND:
		r = tb.Bin(opBvAnd, a, b)
	case token.OR:
		r = tb.Bin(opBvOr, a, b)
	case token.XOR:
		r = tb.Bin(opBvXor, a, b)
	case token.AND_NOT:
		r = tb.Bin(opBvAnd, a, tb.BvNot(b))
	case token.LSS:
		if ik.signed {
			r = tb.Cmp(opSlt, a, b)
		} else {
			r = tb.Cmp(opUlt, a, b)
		}
		return fromTerm(types.Typ[types.Bool], r)
	case token.LEQ:
		if ik.signed {
			r = tb.Cmp(opSle, a, b)
		} else {
			r = tb.Cmp(opUle, a, b)
		}
		return fromTerm(types.Typ[types.Bool], r)
	case token.GTR:
		if ik.signed {
			r = tb.Cmp(opSlt, b, a)
		} else {
			r = tb.Cmp(opUlt, b, a)
		}
		return fromTerm(types.Typ[types.Bool], r)
	case token.GEQ:
		if ik.signed {
			r = tb.Cmp(opSle, b, a)
		} else {
			r = tb.Cmp(opUle, b, a)
		}
		return fromTerm(types.Typ[types.Bool], r)
	default:
		panic(fmt.Sprintf("symbolic binop %s", op))
	}
	return fromTerm(tx, r)
}

func unop(i *interpreter, instr *ssa.UnOp, x value) value {
	switch instr.Op {
	case token.ARROW: // receive
		ch := x.(*gchan)
		if ch == nil {
			panic(unsupported("receive from nil channel"))
		}
		var v value
		ok := false
		if len(ch.buf) > 0 {
			v = ch.buf[0]
			ch.buf = ch.buf[1:]
			ok = true
		} else if ch.closed {
			v = zero(instr.X.Type().Underlying().(*types.Chan).Elem())
		} else {
			panic(unsupported("receive would block (one schedule only) at " + i.prog.Fset.Position(instr.Pos()).String()))
		}
		if instr.CommaOk {
			v = tuple{v, ok}
		}
		return v
	case token.MUL:
		if sa, ok := x.(*symAddr); ok {
			return i.indexRead(sa.elems, sa.idx, sa.tidx, sa.telem)
		}
		dt := deref(instr.X.Type())
		v := load(dt, i.checkPtr(x.(*value)))
		// zero-copy reinterpretations through unsafe.Pointer: *(*string)(unsafe.Pointer(&bytes)) and back
		if b, ok := dt.Underlying().(*types.Basic); ok && b.Kind() == types.String {
			if s, isSlice := v.([]value); isSlice {
				return normStr(symstr(append([]value(nil), s...)))
			}
		} else if _, ok := dt.Underlying().(*types.Slice); ok {
			switch s := v.(type) {
			case string, symstr:
				return strBytes(s)
			}
		}
		return v
	case token.NOT:
		return i.notV(x)
	}
	if t, ok := x.(*Term); ok {
		switch instr.Op {
		case token.SUB:
			return fromTerm(instr.Type(), i.tb.Neg(t))
		case token.XOR:
			return fromTerm(instr.Type(), i.tb.BvNot(t))
		}
	}
	return unopC(instr, x)
}

// ---------------------------------------------------------------------
// conversions

func conv(i *interpreter, t_dst, t_src types.Type, x value) value {
	ut_src := t_src.Underlying()
	ut_dst := t_dst.Underlying()
	// type parameters (MultiConvert) – use core types
	if tp, ok := ut_src.(*types.Interface); ok && tp != nil {
		_ = tp
	}
	switch x := x.(type) {
	case *Term:
		dk, ok := basicIntKind(t_dst)
		sk, ok2 := basicIntKind(t_src)
		if ok && ok2 {
			if dk.w <= x.w {
				return fromTerm(t_dst, i.tb.Extract(x, dk.w-1, 0))
			}
			if sk.signed {
				return fromTerm(t_dst, i.tb.Sext(x, dk.w))
			}
			return fromTerm(t_dst, i.tb.Zext(x, dk.w))
		}
		if x.w == 0 {
			return x
		}
		// integer -> string / float: concretise
		c := i.concretize(x, "conversion "+t_src.String()+"->"+t_dst.String())
		return conv(i, t_dst, t_src, mkInt(sk.kind, c))
	case symstr:
		switch ut_dst := ut_dst.(type) {
		case *types.Slice:
			if b, ok := ut_dst.Elem().Underlying().(*types.Basic); ok && b.Kind() == types.Byte {
				r := make([]value, len(x))
				copy(r, x)
				return r
			}
			panic(unsupported("conversion of symbolic string to " + t_dst.String()))
		case *types.Basic:
			return x
		}
	case []value:
		if _, ok := ut_dst.(*types.Basic); ok {
			if el, ok := ut_src.(*types.Slice).Elem().Underlying().(*types.Basic); ok && el.Kind() == types.Byte {
				r := make(symstr, len(x))
				copy(r, x)
				return normStr(r)
			}
			for _, e := range x {
				if isSym(e) {
					panic(unsupported("conversion of symbolic []rune to string"))
				}
			}
		}
	case unsafe.Pointer:
		if _, ok := ut_dst.(*types.Pointer); ok {
			return (*value)(x)
		}
		if b, ok := ut_dst.(*types.Basic); ok && b.Kind() == types.UnsafePointer {
			return x
		}
		if b, ok := ut_dst.(*types.Basic); ok && b.Kind() == types.Uintptr {
			return uintptr(x)
		}
	case uintptr:
		if b, ok := ut_dst.(*types.Basic); ok && b.Kind() == types.UnsafePointer {
			return unsafe.Pointer(x)
		}
	case slicePtr, *slicePtr:
		return x
	case string:
		if sl, ok := ut_dst.(*types.Slice); ok {
			if b, ok := sl.Elem().Underlying().(*types.Basic); ok && b.Kind() == types.Byte {
				r := make([]value, len(x))
				for k := 0; k < len(x); k++ {
					r[k] = x[k]
				}
				return r
			}
		}
	}
	return convC(t_dst, t_src, x)
}

// ---------------------------------------------------------------------
// resolving symbolic ints to concrete ones

func (i *interpreter) concreteInt(x value, what string) int64 {
	if t, ok := x.(*Term); ok {
		return int64(i.concretize(t, what))
	}
	return asInt64(x)
}

// concreteLen resolves a symbolic length (signed int) to a concrete value.
// Lengths above the harness's allocation limit are reported as an "alloc"
// violation (the code is about to allocate what untrusted input declared);
// lengths up to maxFanout are explored exhaustively; larger lengths below the
// limit are represented by their smallest feasible value only (stated bound).
func (i *interpreter) concreteLen(x value, what string) int {
	t, ok := x.(*Term)
	if !ok {
		return int(asInt64(x))
	}
	ps := i.ps
	if ps == nil {
		panic(engineError{"symbolic length outside a path"})
	}
	t = ps.simplify(t)
	if t.isConst() {
		return int(sext64(t.c, t.w))
	}
	tb := i.tb
	if t.w < 64 {
		if i.lenSigned {
			t = tb.Sext(t, 64)
		} else {
			t = tb.Zext(t, 64)
		}
	}
	lim := tb.Const(64, uint64(ps.allocLimit))
	over := tb.Cmp(opUlt, lim, t) // unsigned: negative lengths count as huge
	if i.decideQuiet(over, "alloc") {
		// feasible: report once per path, preferring a moderately large witness
		mod := tb.And(over, tb.Cmp(opUle, t, tb.Const(64, 1<<26)))
		if i.sol.check(mod) != resSat {
			mod = over
		}
		if !i.knownOnly("alloc", mod) {
			ps.violation("alloc", fmt.Sprintf("%s: length above the allocation limit %d is feasible", what, ps.allocLimit), i.violLit)
		}
		panic(pathAbort{kind: "violation-end", info: "alloc"})
	}
	max := uint64(i.sh.opts.maxFanout)
	small := tb.Cmp(opUlt, t, tb.Const(64, max))
	max--
	if i.decide(small) {
		return int(i.concretize(t, what))
	}
	// representative: the smallest feasible length above maxFanout
	lo, hi := max+1, uint64(ps.allocLimit)
	if ps.pos < len(ps.prefix) {
		v := ps.prefix[ps.pos]
		ps.pos++
		ps.trace = append(ps.trace, v)
		ps.assume(tb.Eq(t, tb.Const(64, v)))
		ps.replayed()
		return int(v)
	}
	ps.pos++
	for lo < hi {
		mid := lo + (hi-lo)/2
		if i.sol.check(tb.Cmp(opUle, t, tb.Const(64, mid))) == resSat {
			hi = mid
		} else {
			lo = mid + 1
		}
	}
	ps.trace = append(ps.trace, lo)
	ps.assume(tb.Eq(t, tb.Const(64, lo)))
	ps.reprLens++
	return int(lo)
}

// decideQuiet is decide for engine-internal checks whose true side ends the path:
// it forks like decide but is recorded the same way for replay.
func (i *interpreter) decideQuiet(c *Term, what string) bool {
	return i.decide(c)
}

const allocLimitDefault = 1 << 22

// alloc accounts an allocation of n elements and enforces the harness limit.
func (i *interpreter) alloc(n int) {
	if i.ps == nil {
		return
	}
	lim := i.ps.allocLimit
	if n > lim {
		i.ps.violation("alloc", fmt.Sprintf("allocation of %d elements exceeds limit %d", n, lim), nil)
		panic(pathAbort{kind: "violation-end", info: "alloc"})
	}
}

// indexIn checks idx against [0,n) (Go semantics) and returns a concrete index.
func (i *interpreter) indexIn(idx value, tidx types.Type, n int) int {
	if t, ok := idx.(*Term); ok {
		inb := i.boundsTerm(t, n)
		if !i.truth(fromTerm(types.Typ[types.Bool], inb)) {
			panic(targetPanic{i.runtimeError("runtime error: index out of range (symbolic index)")})
		}
		return int(i.concretize(t, "index"))
	}
	k := asInt64(idx)
	if u, isU := idx.(uint64); isU && u > uint64(n) {
		k = -1
	}
	if u, isU := idx.(uint); isU && uint64(u) > uint64(n) {
		k = -1
	}
	if k < 0 || k >= int64(n) {
		panic(targetPanic{i.runtimeError(fmt.Sprintf("runtime error: index out of range [%d] with length %d", k, n))})
	}
	return int(k)
}

// indexRead reads elems[idx]; for a symbolic index over scalar elements it
// builds an ite chain instead of forking.
func (i *interpreter) indexRead(elems []value, idx value, tidx, telem types.Type) value {
	t, ok := idx.(*Term)
	if !ok {
		return elems[i.indexIn(idx, tidx, len(elems))]
	}
	n := len(elems)
	inb := i.boundsTerm(t, n)
	if !i.truth(fromTerm(types.Typ[types.Bool], inb)) {
		panic(targetPanic{i.runtimeError("runtime error: index out of range (symbolic index)")})
	}
	if _, isInt := basicIntKind(telem); isInt && n <= 256 && n > 0 {
		r := i.toTerm(elems[n-1])
		for k := n - 2; k >= 0; k-- {
			r = i.tb.Ite(i.tb.Eq(t, i.tb.Const(t.w, uint64(k))), i.toTerm(elems[k]), r)
		}
		return fromTerm(telem, r)
	}
	return elems[int(i.concretize(t, "index"))]
}

func sliceOp(i *interpreter, instr *ssa.Slice, x, lo, hi, max value) value {
	var Len, Cap int
	switch x := x.(type) {
	case string:
		Len = len(x)
		Cap = Len
	case symstr:
		Len = len(x)
		Cap = Len
	case []value:
		Len = len(x)
		Cap = cap(x)
	case *value: // *array
		a := (*i.checkPtr(x)).(array)
		Len = len(a)
		Cap = cap(a)
	}
	// Resolve symbolic bounds: each bound is checked against its limit by a
	// decision (out of range => panic), then concretised.
	res := func(v value, def int, what string) int {
		if v == nil {
			return def
		}
		if t, ok := v.(*Term); ok {
			inb := i.boundsTerm(t, Cap+1)
			if !i.truth(fromTerm(types.Typ[types.Bool], inb)) {
				panic(targetPanic{i.runtimeError("runtime error: slice bounds out of range (symbolic)")})
			}
			return int(i.concretize(t, what))
		}
		k := asInt64(v)
		if u, isU := v.(uint64); isU && u > uint64(1<<62) {
			k = -1
		}
		return int(k)
	}
	l := res(lo, 0, "slice low")
	h := res(hi, Len, "slice high")
	m := res(max, Cap, "slice max")
	if l < 0 || h < l || m < h || m > Cap {
		panic(targetPanic{i.runtimeError(fmt.Sprintf("runtime error: slice bounds out of range [%d:%d:%d] with capacity %d", l, h, m, Cap))})
	}
	switch x := x.(type) {
	case string:
		return x[l:h]
	case symstr:
		return normStr(x[l:h])
	case []value:
		return x[l:h:m]
	case *value: // *array
		a := (*x).(array)
		return []value(a)[l:h:m]
	}
	panic(fmt.Sprintf("slice: unexpected X type: %T", x))
}

// lookup returns x[idx] where x is a map or a string.
func lookup(i *interpreter, instr *ssa.Lookup, x, idx value) value {
	switch x := x.(type) {
	case *gmap:
		var v value
		e := i.mapFind(x, idx)
		ok := e != nil
		if ok {
			v = e.val
		} else {
			v = zero(instr.X.Type().Underlying().(*types.Map).Elem())
		}
		if instr.CommaOk {
			v = tuple{v, ok}
		}
		return v
	case string, symstr:
		return i.indexRead(strBytes(x), idx, instr.Index.Type(), types.Typ[types.Uint8])
	}
	panic(fmt.Sprintf("unexpected x type in Lookup: %T", x))
}

// typeAssert checks whether dynamic type of itf is instr.AssertedType.
func typeAssert(i *interpreter, instr *ssa.TypeAssert, itf iface) value {
	var v value
	failed := false
	if itf.t == nil {
		failed = true
	} else if idst, ok := instr.AssertedType.Underlying().(*types.Interface); ok {
		v = itf
		failed = !i.sh.implements(itf.t, idst)
	} else if i.sh.identical(itf.t, instr.AssertedType) {
		v = itf.v // extract value
	} else {
		failed = true
	}
	if failed {
		if !instr.CommaOk {
			// error text only built on the (rare) panicking path: type printing is expensive
			err := fmt.Sprintf("interface conversion: interface is %v, not %s", itf.t, instr.AssertedType)
			panic(targetPanic{i.runtimeError(err)})
		}
		return tuple{zero(instr.AssertedType), false}
	}
	if instr.CommaOk {
		return tuple{v, true}
	}
	return v
}

func rangeIter(x value, t types.Type) iter {
	switch x := x.(type) {
	case *gmap:
		it := &mapIter{}
		if x != nil {
			it.snap = append(it.snap, x.entries...)
		}
		return it
	case string, symstr:
		return &stringIter{s: symstr(strBytes(x))}
	}
	panic(fmt.Sprintf("cannot range over %T", x))
}

// callBuiltin interprets a call to builtin fn with arguments args,
// returning its result.
// aggregateCopies returns the elements that append/copy write into their destination. Struct and
// array elements are represented by mutable backing slices that store() updates in place, so
// they must be copied (also making overlapping copies behave like memmove); scalars are shared.
func aggregateCopies(fn *ssa.Builtin, src []value) []value {
	sig, ok := fn.Type().(*types.Signature)
	if !ok || sig.Params().Len() == 0 {
		return src
	}
	sl, ok := sig.Params().At(0).Type().Underlying().(*types.Slice)
	if !ok {
		return src
	}
	switch sl.Elem().Underlying().(type) {
	case *types.Struct, *types.Array:
		out := make([]value, len(src))
		for k := range src {
			out[k] = load(sl.Elem(), &src[k])
		}
		return out
	}
	return src
}

func callBuiltin(i *interpreter, caller *frame, callpos token.Pos, fn *ssa.Builtin, args []value) value {
	switch fn.Name() {
	case "append":
		if len(args) == 1 {
			return args[0]
		}
		arg0 := args[0].([]value)
		var add []value
		switch s := args[1].(type) {
		case string, symstr:
			add = strBytes(s)
		case []value:
			add = s
		}
		if len(add) == 0 {
			return arg0
		}
		// Go semantic: in-place when capacity suffices (aliasing preserved by native append)
		i.alloc(len(arg0) + len(add))
		return append(arg0, aggregateCopies(fn, add)...)

	case "copy": // copy([]T, []T) int or copy([]byte, string) int
		var src []value
		switch s := args[1].(type) {
		case string, symstr:
			src = strBytes(s)
		case []value:
			src = s
		}
		return copy(args[0].([]value), aggregateCopies(fn, src))

	case "close": // close(chan T)
		ch := args[0].(*gchan)
		if ch == nil || ch.closed {
			panic(targetPanic{i.runtimeError("close of nil or closed channel")})
		}
		ch.closed = true
		return nil

	case "delete": // delete(map[K]value, K)
		i.mapDelete(args[0].(*gmap), args[1])
		return nil

	case "clear":
		switch x := args[0].(type) {
		case *gmap:
			x.clear()
		case []value:
			if len(x) > 0 {
				t := fn.Type().(*types.Signature).Params().At(0).Type().Underlying().(*types.Slice).Elem()
				for k := range x {
					x[k] = zero(t)
				}
			}
		}
		return nil

	case "print", "println": // print(any, ...)
		ln := fn.Name() == "println"
		var buf bytes.Buffer
		for k, arg := range args {
			if k > 0 && ln {
				buf.WriteRune(' ')
			}
			buf.WriteString(toString(arg))
		}
		if ln {
			buf.WriteRune('\n')
		}
		os.Stderr.Write(buf.Bytes())
		return nil

	case "len":
		switch x := args[0].(type) {
		case string:
			return len(x)
		case symstr:
			return len(x)
		case array:
			return len(x)
		case *value:
			return len((*x).(array))
		case []value:
			return len(x)
		case *gmap:
			return x.len()
		case *gchan:
			if x == nil {
				return 0
			}
			return len(x.buf)
		case *opaqueSlice:
			return x.n
		default:
			panic(fmt.Sprintf("len: illegal operand: %T", x))
		}

	case "cap":
		switch x := args[0].(type) {
		case array:
			return cap(x)
		case *value:
			return cap((*x).(array))
		case []value:
			return cap(x)
		case *gchan:
			if x == nil {
				return 0
			}
			return x.cap
		default:
			panic(fmt.Sprintf("cap: illegal operand: %T", x))
		}

	case "min", "max":
		isMin := fn.Name() == "min"
		t := fn.Type().(*types.Signature).Params().At(0).Type()
		acc := args[0]
		for _, a := range args[1:] {
			_, s1 := acc.(*Term)
			_, s2 := a.(*Term)
			if s1 || s2 {
				op := token.LSS
				if !isMin {
					op = token.GTR
				}
				c := binop(i, op, t, t, a, acc)
				acc = fromTerm(t, i.tb.Ite(i.toTerm(c), i.toTerm(a), i.toTerm(acc)))
			} else if isMin {
				acc = min(acc, a)
			} else {
				acc = max(acc, a)
			}
		}
		return acc

	case "real":
		switch c := args[0].(type) {
		case complex64:
			return real(c)
		case complex128:
			return real(c)
		}
	case "imag":
		switch c := args[0].(type) {
		case complex64:
			return imag(c)
		case complex128:
			return imag(c)
		}
	case "complex":
		switch f := args[0].(type) {
		case float32:
			return complex(f, args[1].(float32))
		case float64:
			return complex(f, args[1].(float64))
		}

	case "panic":
		panic(targetPanic{args[0]})

	case "recover":
		return doRecover(caller)

	case "ssa:wrapnilchk":
		recv := args[0]
		if recv.(*value) == nil {
			panic(i.nilDeref())
		}
		return recv

	case "ssa:deferstack":
		return &caller.defers

	// package unsafe
	case "SliceData":
		s := args[0].([]value)
		return &slicePtr{s: s[:len(s):cap(s)]}
	case "StringData":
		return &slicePtr{s: strBytes(args[0]), str: args[0]}
	case "String":
		n := int(i.concreteInt(args[1], "unsafe.String len"))
		switch p := args[0].(type) {
		case *slicePtr:
			return normStr(symstr(append([]value(nil), p.s[:n]...)))
		case *value:
			if n == 0 {
				return ""
			}
		}
		panic(unsupported(fmt.Sprintf("unsafe.String(%T)", args[0])))
	case "Slice":
		n := int(i.concreteInt(args[1], "unsafe.Slice len"))
		switch p := args[0].(type) {
		case *slicePtr:
			if p.str != nil {
				return append([]value(nil), p.s[:n]...)
			}
			return p.s[:n]
		case *value:
			if n == 0 {
				return []value(nil)
			}
		}
		panic(unsupported(fmt.Sprintf("unsafe.Slice(%T)", args[0])))
	case "Add":
		panic(unsupported("unsafe.Add"))
	}

	panic("unknown built-in: " + fn.Name())
}
