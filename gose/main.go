package main

// gose: bounded symbolic execution of real Go code (go/ssa) with an SMT solver
// deciding every branch feasibility and assertion. See /verif/DESIGN.md.

import (
	"encoding/json"
	"flag"
	"fmt"
	"math/big"
	"os"
	"os/exec"
	"path/filepath"
	"regexp"
	"runtime/debug"
	"runtime/pprof"
	"sort"
	"strconv"
	"strings"
	"time"

	"golang.org/x/tools/go/ssa"
)

func newInterpreter(sh *shared, id int) *interpreter {
	i := &interpreter{
		prog:    sh.prog,
		sh:      sh,
		globals: map[*ssa.Global]*value{},
		inited:  map[*ssa.Package]bool{},
		id:      id,
		tb:      newTermTable(),

		lenSigned: true,
	}
	rt := sh.prog.ImportedPackage("runtime")
	if rt == nil {
		panic("ssa.Program doesn't include runtime package")
	}
	i.runtimeErrorString = rt.Type("errorString").Object().Type()
	i.tracing = sh.opts.trace
	return i
}

type harnessResult struct {
	Name        string                 `json:"harness"`
	Paths       int                    `json:"paths_completed"`
	Pruned      int                    `json:"paths_pruned_by_assume"`
	Bound       int                    `json:"paths_bound_exceeded"`
	UnknownP    int                    `json:"paths_with_inconclusive_queries"`
	Decisions   int64                  `json:"decisions"`
	Steps       int64                  `json:"ssa_instructions"`
	Queries     int                    `json:"queries"`
	Sat         int                    `json:"sat"`
	Unsat       int                    `json:"unsat"`
	Unknown     int                    `json:"unknown"`
	Retried     int                    `json:"decided_by_fallback_solver"`
	SolverS     float64                `json:"solver_s"`
	WallS       float64                `json:"wall_s"`
	Labels      map[string]*labelStat  `json:"assert_labels"`
	Reach       map[string]int         `json:"reach"`
	Funcs       []string               `json:"functions_encoded"`
	Violations  []violationRec         `json:"-"`
	KnownHit    map[string]int         `json:"known_findings_hit"`
	Fatal       string                 `json:"fatal,omitempty"`
	Truncated   bool                   `json:"truncated,omitempty"`
	Samples     []map[string]any       `json:"samples"`
	BoundNotes  []string               `json:"bound_notes,omitempty"`
	Params      map[string]int         `json:"params"`
	valModels   []validationModel
	Termination bool `json:"-"`
}

type validationModel struct {
	Model map[string]string
	Obs   []string
	Trace []uint64
}

func runHarness(ld *loaded, pkg *ssa.Package, hs harnessSpec, to tierOpts, known []knownFinding, g globalOpts) *harnessResult {
	fn := pkg.Func(hs.Func)
	res := &harnessResult{Name: hs.Func, Params: to.Params, Termination: hs.Termination}
	if fn == nil {
		res.Fatal = "harness function not found: " + hs.Func
		return res
	}
	opts := runOpts{
		workers: g.workers, stepLimit: to.Steps, timeoutMs: to.SolverMs, maxPaths: to.MaxPaths,
		maxFanout: to.Fanout, solver: g.solver, trace: g.trace, smtLog: g.smtLog, params: to.Params,
		validate: to.Validate,
	}
	if opts.stepLimit == 0 {
		opts.stepLimit = 2_000_000
	}
	if opts.timeoutMs == 0 {
		// short first attempt: a query the primary solver does not decide quickly is retried on
		// the other solvers (120 s each) before it is counted as inconclusive
		opts.timeoutMs = 3000
	}
	if opts.maxFanout == 0 {
		opts.maxFanout = 64
	}
	if to.TimeoutS == 0 {
		to.TimeoutS = 1500 // never run unbounded: a truncated exploration is reported as inconclusive
	}
	opts.deadline = time.Now().Add(time.Duration(to.TimeoutS) * time.Second)
	sh := newShared(ld, fn, hs.Func, opts, known, g.verbose)
	t0 := time.Now()
	sh.run()
	res.WallS = time.Since(t0).Seconds()
	res.Paths, res.Pruned, res.Bound, res.UnknownP = sh.pathsDone, sh.pathsPruned, sh.pathsBound, sh.pathsUnknown
	res.Decisions, res.Steps = sh.decisions, sh.steps
	res.Queries, res.Sat, res.Unsat, res.Unknown, res.SolverS = sh.q, sh.qSat, sh.qUnsat, sh.qUnknown, sh.solverSecs
	res.Retried = sh.qRetried
	res.Labels, res.Reach, res.KnownHit = sh.labels, sh.reach, sh.knownHit
	for f := range sh.funcs {
		res.Funcs = append(res.Funcs, f)
	}
	sort.Strings(res.Funcs)
	res.Violations = sh.violations
	res.Fatal = sh.fatal
	res.Truncated = sh.truncated
	res.Samples = sh.samples
	res.BoundNotes = sh.obsLogs
	res.valModels = sh.valModels
	return res
}

func newShared(ld *loaded, fn *ssa.Function, name string, opts runOpts, known []knownFinding, verbose bool) *shared {
	sh := &shared{
		prog: ld.prog, harness: fn, hname: name, opts: opts, verbose: verbose,
		labels: map[string]*labelStat{}, reach: map[string]int{}, funcs: map[string]bool{},
		knownHit: map[string]int{}, known: known, sizes: ld.sizes,
	}
	if r := ld.prog.ImportedPackage("reflect"); r != nil {
		sh.reflectStructField = r.Type("StructField").Type()
		sh.reflectMethod = r.Type("Method").Type()
		sh.reflectMapIter = r.Type("MapIter").Type()
	}
	return sh
}

type globalOpts struct {
	workers int
	solver  solverKind
	verbose bool
	trace   bool
	smtLog  string
}

func loadKnown(verifDir string) []knownFinding {
	var out []knownFinding
	b, err := os.ReadFile(filepath.Join(verifDir, "known_findings.json"))
	if err != nil {
		return nil
	}
	var file struct {
		Findings []struct {
			knownFinding
			Status string `json:"status"`
		} `json:"findings"`
	}
	if err := json.Unmarshal(b, &file); err != nil {
		fmt.Fprintf(os.Stderr, "known_findings.json: %v\n", err)
		os.Exit(2)
	}
	for _, f := range file.Findings {
		if f.Status == "open" {
			out = append(out, f.knownFinding)
		}
	}
	return out
}

func main() {
	if len(os.Args) < 2 {
		fmt.Fprintln(os.Stderr, "usage: gose check <ID> [--tier quick|thorough] [--harness F] | gose replay <ID> <file>")
		os.Exit(2)
	}
	// the interpreter allocates heavily (boxed values); memory is plentiful, GC time is not
	debug.SetGCPercent(800)
	// soft limit: with 16 workers and a lazy collector a large exploration reached the machine's
	// 62 GiB and was killed; past 40 GiB the collector works harder instead
	debug.SetMemoryLimit(40 << 30)
	switch os.Args[1] {
	case "check":
		os.Exit(cmdCheck(os.Args[2:]))
	case "replay":
		os.Exit(cmdReplay(os.Args[2:]))
	case "selftest":
		os.Exit(cmdSelftest(os.Args[2:]))
	}
	fmt.Fprintln(os.Stderr, "unknown command")
	os.Exit(2)
}

func verifDirDefault() string {
	if d := os.Getenv("VERIF_DIR"); d != "" {
		return d
	}
	exe, err := os.Executable()
	if err == nil {
		d := filepath.Dir(filepath.Dir(exe))
		if _, err := os.Stat(filepath.Join(d, "harness")); err == nil {
			return d
		}
	}
	return "/verif"
}

func readSpec(verifDir, id string) (*propSpec, error) {
	dir := filepath.Join(verifDir, "harness", id)
	b, err := os.ReadFile(filepath.Join(dir, "spec.json"))
	if err != nil {
		return nil, err
	}
	spec := &propSpec{}
	if err := json.Unmarshal(b, spec); err != nil {
		return nil, fmt.Errorf("%s/spec.json: %v", dir, err)
	}
	spec.dir = dir
	return spec, nil
}

func cmdCheck(args []string) int {
	fs := flag.NewFlagSet("check", flag.ExitOnError)
	tier := fs.String("tier", "quick", "quick|thorough")
	only := fs.String("harness", "", "run only this harness")
	workers := fs.Int("workers", 16, "worker count")
	verbose := fs.Bool("v", false, "verbose")
	trace := fs.Bool("trace", false, "trace instructions")
	solverName := fs.String("solver", "z3-new", "z3-new (5.1.0, default) | z3 (4.8.12) | cvc5; the other two are the fall-back for inconclusive queries")
	smtLog := fs.String("smtlog", "", "write worker 0's SMT-LIB dialogue to this file")
	noNative := fs.Bool("no-native", false, "skip native replay/validation (debugging only; exit 2)")
	cpuprof := fs.String("cpuprofile", "", "write CPU profile")
	paramOv := fs.String("p", "", "override harness params: k=v,k=v")
	timeoutOv := fs.Int("timeout", 0, "override per-harness exploration deadline (s)")
	if len(args) < 1 {
		fmt.Fprintln(os.Stderr, "check: missing property id")
		return 2
	}
	id := args[0]
	fs.Parse(args[1:])
	if t := os.Getenv("VERIF_TIER"); t != "" && !flagSet(fs, "tier") {
		*tier = t
	}
	seed := 0
	if s := os.Getenv("VERIF_SEED"); s != "" {
		seed, _ = strconv.Atoi(s)
	}
	verifDir := verifDirDefault()
	t0 := time.Now()
	if *cpuprof != "" {
		f, _ := os.Create(*cpuprof)
		pprof.StartCPUProfile(f)
		defer pprof.StopCPUProfile()
	}
	spec, err := readSpec(verifDir, id)
	if err != nil {
		fmt.Fprintln(os.Stderr, "spec:", err)
		return 2
	}
	ov, err := overlayFor(spec, verifDir)
	if err != nil {
		fmt.Fprintln(os.Stderr, "overlay:", err)
		return 2
	}
	tLoad := time.Now()
	ld, err := loadProgram(spec, ov)
	if err != nil {
		fmt.Fprintln(os.Stderr, "load:", err)
		return 2
	}
	loadS := time.Since(tLoad).Seconds()
	g := globalOpts{workers: *workers, verbose: *verbose, trace: *trace, smtLog: *smtLog}
	switch *solverName {
	case "z3-new":
		g.solver = solverZ3New
	case "z3":
		g.solver = solverZ3
	case "cvc5":
		g.solver = solverCVC5
	}
	primarySolver = g.solver
	known := loadKnown(verifDir)
	var knownForProp []knownFinding
	for _, k := range known {
		if k.Property == id {
			knownForProp = append(knownForProp, k)
		}
	}
	var results []*harnessResult
	unitOf := map[string]unitSpec{}
	for _, u := range spec.Units {
		pkg := ld.pkgs[u.Pkg]
		if pkg == nil {
			fmt.Fprintf(os.Stderr, "package %s not loaded\n", u.Pkg)
			return 2
		}
		for _, hs := range u.Harnesses {
			if *only != "" && hs.Func != *only {
				continue
			}
			to := hs.Quick
			if *tier == "thorough" {
				to = mergeTier(hs.Quick, hs.Thorough)
			}
			if to.Skip {
				continue
			}
			if *paramOv != "" {
				np := map[string]int{}
				for k, v := range to.Params {
					np[k] = v
				}
				for _, kv := range strings.Split(*paramOv, ",") {
					p := strings.SplitN(kv, "=", 2)
					if len(p) == 2 {
						n, _ := strconv.Atoi(p[1])
						np[p[0]] = n
					}
				}
				to.Params = np
			}
			if *timeoutOv > 0 {
				to.TimeoutS = *timeoutOv
			}
			unitOf[hs.Func] = u
			r := runHarness(ld, pkg, hs, to, knownForProp, g)
			results = append(results, r)
			fmt.Printf("harness %-40s paths=%d pruned=%d bound=%d queries=%d (sat %d unsat %d unknown %d fallback %d) solver=%.1fs wall=%.1fs violations=%d\n",
				hs.Func, r.Paths, r.Pruned, r.Bound, r.Queries, r.Sat, r.Unsat, r.Unknown, r.Retried, r.SolverS, r.WallS, len(r.Violations))
			if r.Fatal != "" {
				fmt.Printf("FATAL %s: %s\n", hs.Func, firstLines(r.Fatal, 40))
			}
		}
	}
	// ---- native replay of violations and translation validation
	rep := &replayer{verifDir: verifDir, spec: spec, ov: ov, id: id}
	defer rep.cleanup()
	exit := 0
	inconclusive := []string{}
	var confirmed []violationRec
	unrepro := 0
	validated := 0
	if !*noNative {
		var jobs []*replayJob
		for _, r := range results {
			for n := range r.Violations {
				v := &r.Violations[n]
				if v.Kind == "bound" && !r.Termination {
					continue
				}
				jobs = append(jobs, &replayJob{harness: r.Name, unit: unitOf[r.Name], model: v.Model, params: r.Params, viol: v})
			}
			for n := range r.valModels {
				vm := &r.valModels[n]
				jobs = append(jobs, &replayJob{harness: r.Name, unit: unitOf[r.Name], model: vm.Model, params: r.Params, val: vm})
			}
		}
		if len(jobs) > 0 {
			if err := rep.run(jobs); err != nil {
				fmt.Fprintln(os.Stderr, "native replay failed:", err)
				inconclusive = append(inconclusive, "native replay failed: "+err.Error())
			}
		}
		os.MkdirAll(filepath.Join(verifDir, "evidence", "replays"), 0o755)
		old, _ := filepath.Glob(filepath.Join(verifDir, "evidence", "replays", id+"-*.json"))
		for _, f := range old {
			os.Remove(f)
		}
		nrep := 0
		for _, j := range jobs {
			if j.viol != nil {
				ok := false
				switch j.viol.Kind {
				case "assert":
					ok = j.outcome == "assert:"+j.viol.Label
				case "panic":
					ok = strings.HasPrefix(j.outcome, "panic:")
				case "alloc":
					ok = strings.HasPrefix(j.outcome, "alloc:") || strings.HasPrefix(j.outcome, "panic:") || j.outcome == "timeout"
				case "bound":
					ok = j.outcome == "timeout"
				}
				if ok {
					nrep++
					path := filepath.Join(verifDir, "evidence", "replays", fmt.Sprintf("%s-%s-%d.json", id, j.harness, nrep))
					writeJSON(path, map[string]any{
						"property": id, "harness": j.harness, "label": j.viol.Label, "kind": j.viol.Kind,
						"msg": j.viol.Msg, "model": j.viol.Model, "params": j.params, "trace": j.viol.Trace,
						"native_outcome": j.outcome,
					})
					fmt.Printf("VIOLATION property=%s replay=%s\n", id, path)
					fmt.Printf("  harness=%s label=%s kind=%s native=%s msg=%s\n", j.harness, j.viol.Label, j.viol.Kind, j.outcome, firstLines(j.viol.Msg, 2))
					confirmed = append(confirmed, *j.viol)
					exit = 1
				} else {
					unrepro++
					fmt.Printf("UNREPRODUCED model harness=%s label=%s kind=%s native=%s msg=%q model=%v\n", j.harness, j.viol.Label, j.viol.Kind, j.outcome, firstLines(j.viol.Msg, 3), j.viol.Model)
				}
			}
			if j.val != nil {
				// run the interpreter with the same inputs pinned and compare
				mm, out := pinnedRun(ld, ld.pkgs[j.unit.Pkg], j.harness, j.model, j.params, g)
				if mm != "" {
					inconclusive = append(inconclusive, "pinned run: "+mm)
					continue
				}
				if out.outcome != j.outcome || strings.Join(out.obs, "\n") != strings.Join(j.obs, "\n") {
					inconclusive = append(inconclusive, fmt.Sprintf("translation mismatch in %s: native=%q/%v engine=%q/%v model=%v", j.harness, j.outcome, j.obs, out.outcome, out.obs, j.model))
					continue
				}
				validated++
			}
		}
	} else {
		inconclusive = append(inconclusive, "native phase skipped (--no-native)")
	}
	// ---- verdict
	totalPaths, totalDec := 0, int64(0)
	nontrivial := 0
	reachOK := true
	for _, r := range results {
		totalPaths += r.Paths
		totalDec += r.Decisions
		if r.Fatal != "" {
			inconclusive = append(inconclusive, r.Name+": "+firstLines(r.Fatal, 3))
		}
		if r.Bound > 0 && !r.Termination {
			inconclusive = append(inconclusive, fmt.Sprintf("%s: %d paths exceeded a bound %v", r.Name, r.Bound, r.BoundNotes))
		}
		if r.Truncated {
			inconclusive = append(inconclusive, r.Name+": exploration truncated (max_paths/deadline)")
		}
		if r.Unknown > 0 {
			inconclusive = append(inconclusive, fmt.Sprintf("%s: %d inconclusive solver queries", r.Name, r.Unknown))
		}
		if r.Reach["end"] == 0 && r.Fatal == "" {
			reachOK = false
			inconclusive = append(inconclusive, r.Name+": vacuous (no path reached vrt.Reach(\"end\"))")
		}
		for _, ls := range r.Labels {
			nontrivial += ls.Symbolic
		}
	}
	_ = reachOK
	if unrepro > 0 {
		inconclusive = append(inconclusive, fmt.Sprintf("%d solver models did not reproduce natively (encoder/stub defect)", unrepro))
	}
	// known findings
	printed := map[string]bool{}
	for _, r := range results {
		for kid := range r.KnownHit {
			for _, k := range knownForProp {
				if k.ID == kid && !printed[kid] {
					printed[kid] = true
					fmt.Printf("KNOWN-FINDING: property=%s %s [%s]\n", id, k.What, k.ID)
				}
			}
		}
	}
	wall := time.Since(t0).Seconds()
	writeEvidence(verifDir, id, *tier, seed, spec, results, confirmed, validated, unrepro, inconclusive, loadS, wall, nontrivial)
	if exit == 1 {
		return 1
	}
	if len(inconclusive) > 0 {
		for _, s := range inconclusive {
			fmt.Printf("INCONCLUSIVE: %s\n", firstLines(s, 30))
		}
		return 2
	}
	fmt.Printf("OK property=%s tier=%s paths=%d decisions=%d validated_traces=%d wall=%.1fs\n", id, *tier, totalPaths, totalDec, validated, wall)
	return 0
}

func flagSet(fs *flag.FlagSet, name string) bool {
	set := false
	fs.Visit(func(f *flag.Flag) {
		if f.Name == name {
			set = true
		}
	})
	return set
}

func mergeTier(q, t tierOpts) tierOpts {
	r := t
	if r.Steps == 0 {
		r.Steps = q.Steps
	}
	if r.Fanout == 0 {
		r.Fanout = q.Fanout
	}
	if r.SolverMs == 0 {
		r.SolverMs = q.SolverMs
	}
	if r.Validate == 0 {
		r.Validate = q.Validate
	}
	if r.Params == nil {
		r.Params = q.Params
	} else {
		for k, v := range q.Params {
			if _, ok := r.Params[k]; !ok {
				r.Params[k] = v
			}
		}
	}
	return r
}

func firstLines(s string, n int) string {
	lines := strings.Split(s, "\n")
	if len(lines) > n {
		lines = lines[:n]
	}
	return strings.Join(lines, "\n")
}

func writeJSON(path string, v any) error {
	b, err := json.MarshalIndent(v, "", " ")
	if err != nil {
		return err
	}
	return os.WriteFile(path, b, 0o644)
}

func writeEvidence(verifDir, id, tier string, seed int, spec *propSpec, results []*harnessResult, confirmed []violationRec,
	validated, unrepro int, inconclusive []string, loadS, wall float64, nontrivial int) {
	states, trans := 0, int64(0)
	q, sat, unsat, unk := 0, 0, 0, 0
	solverS := 0.0
	var samples []any
	funcs := map[string]bool{}
	for _, r := range results {
		states += r.Paths
		trans += r.Decisions
		q += r.Queries
		sat += r.Sat
		unsat += r.Unsat
		unk += r.Unknown
		solverS += r.SolverS
		for _, s := range r.Samples {
			s["harness"] = r.Name
			samples = append(samples, s)
		}
		for _, f := range r.Funcs {
			funcs[f] = true
		}
	}
	if len(samples) == 0 {
		samples = append(samples, map[string]any{"note": "no completed path"})
	}
	var fl []string
	for f := range funcs {
		fl = append(fl, f)
	}
	sort.Strings(fl)
	if trans == 0 {
		trans = 0
	}
	ev := map[string]any{
		"property_id": id,
		"tier":        tier,
		"seed":        seed,
		"level":       "model_checking",
		"wall_s":      wall,
		"violations":  len(confirmed),
		"assumptions": append(append([]string{}, spec.Assumptions...), spec.Stubs...),
		"coverage": map[string]any{
			"states":                        states,
			"transitions":                   trans,
			"traces_validated_against_impl": validated,
			"samples":                       samples,
			"evaluations":                   states,
			"distinct_nontrivial":           nontrivial,
			"rule":                          "one evaluation = one explored path (distinct decision sequence) of a harness over the real code; non-trivial = an assertion whose condition was a non-constant SMT term decided by the solver on that path (counted per path and label)",
			"exhaustive":                    len(inconclusive) == 0,
			"bounds":                        spec.Bounds,
			"outside_claim":                 spec.Outside,
			"functions_encoded":             fl,
			"queries":                       map[string]int{"total": q, "sat": sat, "unsat": unsat, "unknown": unk},
			"solver_s":                      solverS,
			"load_s":                        loadS,
			"harnesses":                     results,
			"unreproduced_models":           unrepro,
			"inconclusive":                  inconclusive,
			"engine":                        "gose (go/ssa symbolic interpreter) + " + primarySolver.String() +" (inconclusive queries retried on the other installed solvers)",
		},
	}
	os.MkdirAll(filepath.Join(verifDir, "evidence"), 0o755)
	if err := writeJSON(filepath.Join(verifDir, "evidence", id+".json"), ev); err != nil {
		fmt.Fprintln(os.Stderr, "evidence:", err)
	}
}

// ---------------------------------------------------------------------
// pinned (concrete) interpretation for translation validation

type pinnedOut struct {
	outcome string
	obs     []string
}

func pinnedRun(ld *loaded, pkg *ssa.Package, harness string, model map[string]string, params map[string]int, g globalOpts) (string, pinnedOut) {
	fn := pkg.Func(harness)
	pin := map[string]*big.Int{}
	for k, v := range model {
		b := new(big.Int)
		if strings.HasPrefix(v, "0x") {
			b.SetString(v[2:], 16)
		} else {
			b.SetString(v, 10)
		}
		pin[k] = b
	}
	opts := runOpts{workers: 1, stepLimit: 50_000_000, timeoutMs: 10000, maxFanout: 4, solver: g.solver, pin: pin, params: params}
	sh := newShared(ld, fn, harness, opts, nil, false)
	sh.run()
	if sh.fatal != "" {
		return sh.fatal, pinnedOut{}
	}
	out := pinnedOut{outcome: "ok"}
	if len(sh.violations) > 0 {
		v := sh.violations[0]
		switch v.Kind {
		case "assert":
			out.outcome = "assert:" + v.Label
		case "panic":
			out.outcome = "panic:"
		default:
			out.outcome = v.Kind + ":"
		}
	} else if sh.pathsPruned > 0 && sh.pathsDone == 0 {
		out.outcome = "assume"
	}
	out.obs = sh.pinObs
	return "", out
}

// ---------------------------------------------------------------------
// native replay

type replayJob struct {
	harness string
	unit    unitSpec
	model   map[string]string
	params  map[string]int
	viol    *violationRec
	val     *validationModel
	file    string
	outcome string
	obs     []string
}

type replayer struct {
	verifDir string
	spec     *propSpec
	ov       map[string][]byte
	id       string
	tmp      string
}

func (r *replayer) cleanup() {
	if r.tmp != "" {
		os.RemoveAll(r.tmp)
	}
}

func (r *replayer) setup() error {
	if r.tmp != "" {
		return nil
	}
	base := os.Getenv("VERIF_TMP")
	if base == "" {
		base = os.TempDir()
	}
	tmp, err := os.MkdirTemp(base, "gose-"+r.id+"-")
	if err != nil {
		return err
	}
	r.tmp = tmp
	return nil
}

const replayTestTmpl = `package %s

import (
	"fmt"
	"os"
	"strings"
	"testing"

	vrt "github.com/ChainSafe/gossamer/internal/zzverif/vrt"
)

var zzVerifHarnesses = map[string]func(){
%s}

func TestZZVerifReplay(t *testing.T) {
	data, err := os.ReadFile(os.Getenv("VRT_JOBS"))
	if err != nil {
		t.Fatal(err)
	}
	for _, line := range strings.Split(strings.TrimSpace(string(data)), "\n") {
		parts := strings.SplitN(line, " ", 2)
		if len(parts) != 2 {
			continue
		}
		h, path := parts[0], parts[1]
		f := zzVerifHarnesses[h]
		if f == nil {
			continue
		}
		if err := vrt.LoadModel(path); err != nil {
			t.Fatal(err)
		}
		fmt.Printf("VRT-START %%s\n", path)
		outcome := "ok"
		func() {
			defer func() {
				if r := recover(); r != nil {
					switch x := r.(type) {
					case vrt.AssertFailure:
						outcome = "assert:" + x.Label
					case vrt.AssumeFailure:
						outcome = "assume"
					default:
						outcome = "panic:" + strings.ReplaceAll(fmt.Sprint(r), "\n", " ")
					}
				}
			}()
			f()
		}()
		if vrt.AllocExceeded() {
			outcome = "alloc:exceeded (was " + outcome + ")"
		}
		for _, o := range vrt.ObsLog() {
			fmt.Printf("VRT-OBS %%s %%s\n", path, strings.ReplaceAll(o, "\n", " "))
		}
		fmt.Printf("VRT-RESULT %%s %%s\n", path, outcome)
	}
}
`

var pkgClauseRe = regexp.MustCompile(`(?m)^package\s+(\w+)`)

func (r *replayer) run(jobs []*replayJob) error {
	if err := r.setup(); err != nil {
		return err
	}
	// overlay files on disk
	replace := map[string]string{}
	n := 0
	for virt, content := range r.ov {
		n++
		real := filepath.Join(r.tmp, fmt.Sprintf("ov%d_%s", n, filepath.Base(virt)))
		if err := os.WriteFile(real, content, 0o644); err != nil {
			return err
		}
		replace[virt] = real
	}
	byUnit := map[string][]*replayJob{}
	for k, j := range jobs {
		j.file = filepath.Join(r.tmp, fmt.Sprintf("job%d.json", k))
		writeJSON(j.file, map[string]any{"model": j.model, "params": j.params})
		byUnit[j.unit.Pkg] = append(byUnit[j.unit.Pkg], j)
	}
	for pkgDir, js := range byUnit {
		// package name from the first harness file
		var pkgName string
		var table strings.Builder
		seen := map[string]bool{}
		for _, u := range r.spec.Units {
			if u.Pkg != pkgDir {
				continue
			}
			for _, f := range u.Files {
				b, _ := os.ReadFile(filepath.Join(r.spec.dir, f))
				if m := pkgClauseRe.FindSubmatch(b); m != nil {
					pkgName = string(m[1])
				}
			}
			for _, h := range u.Harnesses {
				if !seen[h.Func] {
					seen[h.Func] = true
					fmt.Fprintf(&table, "\t%q: %s,\n", h.Func, h.Func)
				}
			}
		}
		testSrc := fmt.Sprintf(replayTestTmpl, pkgName, table.String())
		real := filepath.Join(r.tmp, "replay_"+strings.ReplaceAll(pkgDir, "/", "_")+"_test.go")
		os.WriteFile(real, []byte(testSrc), 0o644)
		rep := map[string]string{}
		for k, v := range replace {
			rep[k] = v
		}
		rep[filepath.Join(repoDir, pkgDir, "zz_verif_replay_test.go")] = real
		ovPath := filepath.Join(r.tmp, "overlay_"+strings.ReplaceAll(pkgDir, "/", "_")+".json")
		writeJSON(ovPath, map[string]any{"Replace": rep})
		// jobs may hang (termination violations): run them one process per batch, re-running after a timeout
		pending := js
		for len(pending) > 0 {
			jobList := filepath.Join(r.tmp, "jobs.txt")
			var sb strings.Builder
			for _, j := range pending {
				fmt.Fprintf(&sb, "%s %s\n", j.harness, j.file)
			}
			os.WriteFile(jobList, []byte(sb.String()), 0o644)
			cmd := exec.Command("go", "test", "-vet=off", "-count=1", "-overlay", ovPath, "-run", "^TestZZVerifReplay$", "-timeout", "120s", "-v", "./"+pkgDir+"/")
			cmd.Dir = repoDir
			cmd.Env = append(os.Environ(), "GOFLAGS=-mod=mod", "GOPROXY=off", "GOSUMDB=off", "GOTOOLCHAIN=local", "VRT_JOBS="+jobList)
			out, _ := cmd.CombinedOutput()
			text := string(out)
			byFile := map[string]*replayJob{}
			for _, j := range pending {
				byFile[j.file] = j
			}
			var started *replayJob
			sawAny := false
			for _, line := range strings.Split(text, "\n") {
				line = strings.TrimSpace(line)
				switch {
				case strings.HasPrefix(line, "VRT-START "):
					started = byFile[strings.TrimPrefix(line, "VRT-START ")]
					sawAny = true
				case strings.HasPrefix(line, "VRT-OBS "):
					rest := strings.TrimPrefix(line, "VRT-OBS ")
					sp := strings.SplitN(rest, " ", 2)
					if j := byFile[sp[0]]; j != nil && len(sp) == 2 {
						j.obs = append(j.obs, sp[1])
					}
				case strings.HasPrefix(line, "VRT-RESULT "):
					rest := strings.TrimPrefix(line, "VRT-RESULT ")
					sp := strings.SplitN(rest, " ", 2)
					if j := byFile[sp[0]]; j != nil && len(sp) == 2 {
						j.outcome = sp[1]
						if started == j {
							started = nil
						}
					}
				}
			}
			if !sawAny {
				return fmt.Errorf("go test produced no replay output for %s:\n%s", pkgDir, firstLines(text, 60))
			}
			var next []*replayJob
			if started != nil && started.outcome == "" {
				// crashed or hung inside this job
				if strings.Contains(text, "test timed out") {
					started.outcome = "timeout"
				} else if strings.Contains(text, "fatal error:") || strings.Contains(text, "panic:") {
					started.outcome = "panic:fatal " + grepFirst(text, "fatal error:", "panic:")
				} else {
					started.outcome = "crash"
				}
			}
			for _, j := range pending {
				if j.outcome == "" {
					next = append(next, j)
				}
			}
			if len(next) == len(pending) {
				return fmt.Errorf("replay made no progress for %s:\n%s", pkgDir, firstLines(text, 60))
			}
			pending = next
		}
	}
	return nil
}

func grepFirst(text string, pats ...string) string {
	for _, line := range strings.Split(text, "\n") {
		for _, p := range pats {
			if strings.Contains(line, p) {
				return strings.TrimSpace(line)
			}
		}
	}
	return ""
}

func cmdReplay(args []string) int {
	if len(args) < 2 {
		fmt.Fprintln(os.Stderr, "usage: gose replay <ID> <file>")
		return 2
	}
	id, file := args[0], args[1]
	verifDir := verifDirDefault()
	spec, err := readSpec(verifDir, id)
	if err != nil {
		fmt.Fprintln(os.Stderr, err)
		return 2
	}
	ov, err := overlayFor(spec, verifDir)
	if err != nil {
		fmt.Fprintln(os.Stderr, err)
		return 2
	}
	b, err := os.ReadFile(file)
	if err != nil {
		fmt.Fprintln(os.Stderr, err)
		return 2
	}
	var rec struct {
		Harness string            `json:"harness"`
		Model   map[string]string `json:"model"`
		Params  map[string]int    `json:"params"`
		Label   string            `json:"label"`
	}
	if err := json.Unmarshal(b, &rec); err != nil {
		fmt.Fprintln(os.Stderr, err)
		return 2
	}
	var unit unitSpec
	for _, u := range spec.Units {
		for _, h := range u.Harnesses {
			if h.Func == rec.Harness {
				unit = u
			}
		}
	}
	rep := &replayer{verifDir: verifDir, spec: spec, ov: ov, id: id}
	defer rep.cleanup()
	j := &replayJob{harness: rec.Harness, unit: unit, model: rec.Model, params: rec.Params}
	if err := rep.run([]*replayJob{j}); err != nil {
		fmt.Fprintln(os.Stderr, err)
		return 2
	}
	fmt.Printf("harness=%s label=%s native outcome: %s\n", rec.Harness, rec.Label, j.outcome)
	for _, o := range j.obs {
		fmt.Println("  obs:", o)
	}
	if os.Getenv("GOSE_REPLAY_ENGINE") != "" {
		// also run the engine with the inputs pinned (debugging aid for translation mismatches)
		if ld, err := loadProgram(spec, ov); err == nil {
			mm, out := pinnedRun(ld, ld.pkgs[unit.Pkg], rec.Harness, rec.Model, rec.Params, globalOpts{workers: 1})
			fmt.Printf("engine (pinned) outcome: %s %s\n", out.outcome, firstLines(mm, 30))
			for _, o := range out.obs {
				fmt.Println("  engine obs:", o)
			}
		}
	}
	if j.outcome != "ok" && j.outcome != "assume" {
		return 1
	}
	return 0
}

func cmdSelftest(args []string) int {
	// solver cross-check on a fixed set of small queries (run after encoding changes)
	kinds := []solverKind{solverZ3, solverZ3New, solverCVC5}
	names := []string{"z3", "z3-new", "cvc5"}
	for k, kind := range kinds {
		s, err := newSolver(kind, 20000)
		if err != nil {
			fmt.Println(names[k], "start failed:", err)
			return 2
		}
		s.reset()
		tb := newTermTable()
		x := tb.Var("x", 64)
		y := tb.Var("y", 32)
		// 3*(x/3) <= x  (unsat negation)
		three := tb.Const(64, 3)
		lhs := tb.Bin(opMul, three, tb.Bin(opUdiv, x, three))
		r1 := s.check(tb.Not(tb.Cmp(opUle, lhs, x)))
		// zext(y)+1 != 0
		r2 := s.check(tb.Eq(tb.Bin(opAdd, tb.Zext(y, 64), tb.Const(64, 1)), tb.Const(64, 0)))
		r3 := s.check(tb.Eq(tb.Extract(x, 7, 0), tb.Const(8, 0x5a)))
		fmt.Printf("%s: %v %v %v (want unsat unsat sat)\n", names[k], r1, r2, r3)
		s.close()
		if r1 != resUnsat || r2 != resUnsat || r3 != resSat {
			return 1
		}
	}
	return 0
}
