// Copyright 2013 The Go Authors. All rights reserved.
// Use of this source code is governed by a BSD-style
// license that can be found in the LICENSE file.
//
// This file derives from golang.org/x/tools/go/ssa/interp (v0.29.0); it was
// changed into a symbolic interpreter: scalars may be SMT terms, branches on
// symbolic conditions are decision points of a stateless path explorer, and
// package initialisation is lazy.

package main

import (
	"fmt"
	"go/token"
	"go/types"
	"os"
	"runtime"
	"slices"
	"strings"
	"sync"

	"golang.org/x/tools/go/ssa"
)

type continuation int

const (
	kNext continuation = iota
	kReturn
	kJump
)

type methodSet map[string]*ssa.Function

// interpreter is the per-worker state.
type interpreter struct {
	prog               *ssa.Program
	sh                 *shared
	globals            map[*ssa.Global]*value
	inited             map[*ssa.Package]bool
	runtimeErrorString types.Type
	errorMethods       methodSet
	rtypeMethods       methodSet
	tracing            bool

	tb      *termTable
	sol     *solver
	ps      *pathState
	id      int
	violLit *Term
	// lenSigned: signedness of the operand currently resolved by concreteLen
	lenSigned bool
	// warm: warm-up run (inputs are zero, nothing is recorded)
	warm bool

	hstatesInit  map[*value]*hstate
	initHashApps []*hashApp
}

type deferred struct {
	fn    value
	args  []value
	instr *ssa.Defer
	tail  *deferred
}

type frame struct {
	i                *interpreter
	caller           *frame
	fn               *ssa.Function
	block, prevBlock *ssa.BasicBlock
	env              []value // dynamic values of SSA variables (indexed by fnInfo.slot)
	info             *fnInfo
	locals           []value
	defers           *deferred
	result           value
	panicking        bool
	panic            interface{}
	phitemps         []value // temporaries for parallel phi assignment
	depth            int
}

// unsupportedErr aborts the whole run: the engine met a construct it cannot execute.
type unsupportedErr struct{ what string }

func unsupported(what string) unsupportedErr { return unsupportedErr{what} }

// pathAbort ends the current path (not a target panic).
type pathAbort struct {
	kind string // "assume", "infeasible", "steps", "loop", "depth", "violation-end", "unknown"
	info string
}

func (fr *frame) get(key ssa.Value) value {
	switch key := key.(type) {
	case nil:
		return nil
	case *ssa.Function, *ssa.Builtin:
		return key
	case *ssa.Const:
		return constValue(key)
	case *ssa.Global:
		return fr.i.global(key)
	}
	if k, ok := fr.info.slot[key]; ok {
		return fr.env[k]
	}
	panic(fmt.Sprintf("get: no value for %T: %v in %s", key, key.Name(), fr.fn))
}

// global returns the address of a global, initialising its package lazily.
func (i *interpreter) global(g *ssa.Global) *value {
	if r, ok := i.globals[g]; ok {
		return r
	}
	pkg := g.Pkg
	if !i.inited[pkg] {
		i.initPackage(pkg)
	}
	if r, ok := i.globals[g]; ok {
		return r
	}
	panic(fmt.Sprintf("no storage for global %s", g))
}

var denyInit = map[string]bool{
	"runtime": true, "os": true, "syscall": true, "sync": true, "sync/atomic": true,
	"reflect": true, "unsafe": true, "testing": true, "net": true, "os/signal": true,
	"crypto/rand": true, "log": true, "flag": true, "os/exec": true, "os/user": true,
	"net/http": true, "expvar": true, "runtime/debug": true, "runtime/pprof": true,
	"runtime/trace": true, "runtime/metrics": true, "crypto/tls": true, "crypto/x509": true,
	"mime": true, "html": true, "html/template": true, "text/template": true, "go/build": true,
	"github.com/prometheus/client_golang/prometheus":          true,
	"github.com/prometheus/client_golang/prometheus/promauto": true,
	"github.com/prometheus/client_golang/prometheus/internal": true,
	"github.com/prometheus/procfs":                            true,
	"github.com/prometheus/common/expfmt":                     true,
	"github.com/prometheus/common/model":                      true,
	"google.golang.org/protobuf/internal/impl":                true,
	"google.golang.org/protobuf/internal/filedesc":            true,
	"google.golang.org/protobuf/internal/filetype":            true,
	"google.golang.org/protobuf/reflect/protoregistry":        true,
	"google.golang.org/protobuf/types/descriptorpb":           true,
	"google.golang.org/protobuf/types/known/timestamppb":      true,
	"google.golang.org/protobuf/types/known/anypb":            true,
	"google.golang.org/protobuf/types/known/durationpb":       true,
}

func initDenied(path string) bool {
	if denyInit[path] {
		return true
	}
	if strings.HasPrefix(path, "github.com/cockroachdb/") || strings.HasPrefix(path, "github.com/libp2p/") ||
		strings.HasPrefix(path, "github.com/ipfs/") || strings.HasPrefix(path, "github.com/multiformats/") ||
		strings.HasPrefix(path, "github.com/tetratelabs/") || strings.HasPrefix(path, "google.golang.org/") {
		return true
	}
	if strings.HasPrefix(path, "internal/") || strings.HasPrefix(path, "runtime/") ||
		strings.Contains(path, "/internal/cpu") || strings.HasPrefix(path, "vendor/") {
		return true
	}
	return false
}

func (i *interpreter) initPackage(pkg *ssa.Package) {
	if i.inited[pkg] {
		return
	}
	i.inited[pkg] = true
	for _, m := range pkg.Members {
		if g, ok := m.(*ssa.Global); ok {
			cell := zero(deref(g.Type()))
			i.globals[g] = &cell
		}
	}
	path := pkg.Pkg.Path()
	if initDenied(path) {
		i.initDeniedSpecial(pkg)
		// Sentinel errors of packages whose initialiser is not run get a unique
		// synthetic value so that identity comparisons (errors.Is) keep working.
		if es := i.prog.ImportedPackage("errors"); es != nil {
			est := types.NewPointer(es.Type("errorString").Type())
			for name, m := range pkg.Members {
				g, ok := m.(*ssa.Global)
				if !ok || !strings.HasPrefix(name, "Err") {
					continue
				}
				if types.Identical(deref(g.Type()), errorIface) {
					p := new(value)
					*p = structure{path + "." + name}
					*i.globals[g] = iface{t: est, v: p}
				}
			}
		}
		return
	}
	if i.sh.verbose {
		fmt.Fprintf(os.Stderr, "[w%d] init %s\n", i.id, path)
	}
	// Initialisers run concretely, outside any path accounting.
	saved := i.ps
	i.ps = nil
	defer func() { i.ps = saved }()
	defer func() {
		if p := recover(); p != nil {
			if tp, ok := p.(targetPanic); ok {
				panic(engineError{"panic while initialising package " + path + ": " + describePanic(tp)})
			}
			panic(p)
		}
	}()
	if f := pkg.Func("init"); f != nil {
		call(i, nil, token.NoPos, f, nil)
	}
	if saved != nil && !i.warm && saved.initAppsSeen < len(i.initHashApps) {
		// a lazily run initialiser computed digests of constants in the middle of a path: relate
		// them to the symbolic applications already made on it before anything compares them
		i.ps = saved
		i.syncInitApps()
		i.settleAxioms()
	}
}

func deref(t types.Type) types.Type {
	if p, ok := t.Underlying().(*types.Pointer); ok {
		return p.Elem()
	}
	panic(fmt.Sprintf("deref: not a pointer: %s", t))
}

// runDefer runs a deferred call d.
// It always returns normally, but may set or clear fr.panic.
func (fr *frame) runDefer(d *deferred) {
	var ok bool
	defer func() {
		if !ok {
			p := recover()
			if !isTargetPanic(p) {
				panic(p)
			}
			// Deferred call created a new state of panic.
			fr.panicking = true
			fr.panic = p
		}
	}()
	call(fr.i, fr, d.instr.Pos(), d.fn, d.args)
	ok = true
}

func isTargetPanic(p interface{}) bool {
	_, ok := p.(targetPanic)
	return ok
}

// runDefers executes fr's deferred function calls in LIFO order.
func (fr *frame) runDefers() {
	for d := fr.defers; d != nil; d = d.tail {
		fr.runDefer(d)
	}
	fr.defers = nil
	if fr.panicking {
		panic(fr.panic) // new panic, or still panicking
	}
}

// lookupMethod returns the method set for type typ, which may be one
// of the interpreter's fake types.
func lookupMethod(i *interpreter, typ types.Type, meth *types.Func) *ssa.Function {
	switch typ {
	case rtypeType:
		return i.rtypeMethods[meth.Id()]
	case errorType:
		return i.errorMethods[meth.Id()]
	}
	k := methKey{typ, meth}
	if f, ok := methCache.Load(k); ok {
		return f.(*ssa.Function)
	}
	f := i.prog.LookupMethod(typ, meth.Pkg(), meth.Name())
	methCache.Store(k, f)
	return f
}

type methKey struct {
	t types.Type
	m *types.Func
}

var methCache sync.Map

func (i *interpreter) runtimeError(msg string) value {
	return iface{t: i.runtimeErrorString, v: msg}
}

func (i *interpreter) nilDeref() targetPanic {
	return targetPanic{i.runtimeError("runtime error: invalid memory address or nil pointer dereference")}
}

func (i *interpreter) checkPtr(p *value) *value {
	if p == nil {
		panic(i.nilDeref())
	}
	return p
}

// visitInstr interprets a single ssa.Instruction within the activation
// record frame.  It returns a continuation value indicating where to
// read the next instruction from.
func visitInstr(fr *frame, instr ssa.Instruction) continuation {
	i := fr.i
	switch instr := instr.(type) {
	case *ssa.DebugRef:
		// no-op

	case *ssa.UnOp:
		fr.set(instr, unop(i, instr, fr.get(instr.X)))

	case *ssa.BinOp:
		fr.set(instr, binop(i, instr.Op, instr.X.Type(), instr.Y.Type(), fr.get(instr.X), fr.get(instr.Y)))

	case *ssa.Call:
		fn, args := prepareCall(fr, &instr.Call)
		fr.set(instr, call(fr.i, fr, instr.Pos(), fn, args))

	case *ssa.ChangeInterface:
		fr.set(instr, fr.get(instr.X))

	case *ssa.ChangeType:
		fr.set(instr, fr.get(instr.X)) // (can't fail)

	case *ssa.Convert:
		fr.set(instr, conv(i, instr.Type(), instr.X.Type(), fr.get(instr.X)))

	case *ssa.MultiConvert:
		fr.set(instr, conv(i, instr.Type(), instr.X.Type(), fr.get(instr.X)))

	case *ssa.SliceToArrayPointer:
		fr.set(instr, sliceToArrayPointer(i, instr.Type(), instr.X.Type(), fr.get(instr.X)))

	case *ssa.MakeInterface:
		fr.set(instr, iface{t: types.Unalias(instr.X.Type()), v: fr.get(instr.X)})

	case *ssa.Extract:
		fr.set(instr, fr.get(instr.Tuple).(tuple)[instr.Index])

	case *ssa.Slice:
		fr.set(instr, sliceOp(i, instr, fr.get(instr.X), fr.get(instr.Low), fr.get(instr.High), fr.get(instr.Max)))

	case *ssa.Return:
		switch len(instr.Results) {
		case 0:
		case 1:
			fr.result = fr.get(instr.Results[0])
		default:
			var res []value
			for _, r := range instr.Results {
				res = append(res, fr.get(r))
			}
			fr.result = tuple(res)
		}
		fr.block = nil
		return kReturn

	case *ssa.RunDefers:
		fr.runDefers()

	case *ssa.Panic:
		panic(targetPanic{fr.get(instr.X)})

	case *ssa.Send:
		ch := fr.get(instr.Chan).(*gchan)
		if ch == nil {
			panic(unsupported("send on nil channel (blocks forever)"))
		}
		if ch.closed {
			panic(targetPanic{i.runtimeError("send on closed channel")})
		}
		ch.buf = append(ch.buf, fr.get(instr.X))

	case *ssa.Store:
		store(deref(instr.Addr.Type()), i.checkPtr(fr.get(instr.Addr).(*value)), fr.get(instr.Val))

	case *ssa.If:
		succ := 1
		if i.truth(fr.get(instr.Cond)) {
			succ = 0
		}
		fr.prevBlock, fr.block = fr.block, fr.block.Succs[succ]
		return kJump

	case *ssa.Jump:
		fr.prevBlock, fr.block = fr.block, fr.block.Succs[0]
		return kJump

	case *ssa.Defer:
		fn, args := prepareCall(fr, &instr.Call)
		defers := &fr.defers
		if into := fr.get(instr.DeferStack); into != nil {
			defers = into.(**deferred)
		}
		*defers = &deferred{
			fn:    fn,
			args:  args,
			instr: instr,
			tail:  *defers,
		}

	case *ssa.Go:
		fn, args := prepareCall(fr, &instr.Call)
		// cooperative: run the goroutine to completion now
		call(fr.i, nil, instr.Pos(), fn, args)

	case *ssa.MakeChan:
		n := i.concreteInt(fr.get(instr.Size), "chan size")
		fr.set(instr, &gchan{cap: int(n), elem: instr.Type().Underlying().(*types.Chan).Elem()})

	case *ssa.Alloc:
		var addr *value
		if instr.Heap {
			// new
			addr = new(value)
			fr.set(instr, addr)
		} else {
			// local
			addr = fr.get(instr).(*value)
		}
		*addr = zero(deref(instr.Type()))

	case *ssa.MakeSlice:
		i.lenSigned = true
		if ik, ok := basicIntKind(instr.Cap.Type()); ok {
			i.lenSigned = ik.signed
		}
		c := i.concreteLen(fr.get(instr.Cap), "make cap")
		if ik, ok := basicIntKind(instr.Len.Type()); ok {
			i.lenSigned = ik.signed
		}
		l := i.concreteLen(fr.get(instr.Len), "make len")
		i.lenSigned = true
		if l < 0 || l > c {
			panic(targetPanic{i.runtimeError("runtime error: makeslice: len out of range")})
		}
		i.alloc(c)
		slice := make([]value, c)
		tElt := instr.Type().Underlying().(*types.Slice).Elem()
		if isScalarType(tElt) {
			z := zero(tElt)
			for k := range slice {
				slice[k] = z
			}
		} else {
			for k := range slice {
				slice[k] = zero(tElt)
			}
		}
		fr.set(instr, slice[:l])

	case *ssa.MakeMap:
		fr.set(instr, makeMap(instr.Type().Underlying().(*types.Map).Key()))

	case *ssa.Range:
		fr.set(instr, rangeIter(fr.get(instr.X), instr.X.Type()))

	case *ssa.Next:
		fr.set(instr, fr.get(instr.Iter).(iter).next())

	case *ssa.FieldAddr:
		p := i.checkPtr(fr.get(instr.X).(*value))
		fr.set(instr, &(*p).(structure)[instr.Field])

	case *ssa.Field:
		fr.set(instr, fr.get(instr.X).(structure)[instr.Field])

	case *ssa.IndexAddr:
		x := fr.get(instr.X)
		idx := fr.get(instr.Index)
		// A symbolic index that is only ever loaded through (table look-ups such as
		// asciiSpace[c]) becomes an ite chain instead of a fork over every index value.
		if _, sym := idx.(*Term); sym && onlyLoaded(instr) {
			var elems []value
			switch x := x.(type) {
			case []value:
				elems = x
			case *value:
				elems = []value((*i.checkPtr(x)).(array))
			}
			if _, isInt := basicIntKind(deref(instr.Type())); isInt && len(elems) > 0 && len(elems) <= 256 {
				fr.set(instr, &symAddr{elems: elems, idx: idx, tidx: instr.Index.Type(), telem: deref(instr.Type())})
				break
			}
		}
		switch x := x.(type) {
		case []value:
			k := i.indexIn(idx, instr.Index.Type(), len(x))
			fr.set(instr, &x[k])
		case *value: // *array
			a := (*i.checkPtr(x)).(array)
			k := i.indexIn(idx, instr.Index.Type(), len(a))
			fr.set(instr, &a[k])
		default:
			panic(fmt.Sprintf("unexpected x type in IndexAddr: %T", x))
		}

	case *ssa.Index:
		x := fr.get(instr.X)
		idx := fr.get(instr.Index)
		switch x := x.(type) {
		case array:
			fr.set(instr, i.indexRead([]value(x), idx, instr.Index.Type(), instr.Type()))
		case string, symstr:
			fr.set(instr, i.indexRead(strBytes(x), idx, instr.Index.Type(), instr.Type()))
		default:
			panic(fmt.Sprintf("unexpected x type in Index: %T", x))
		}

	case *ssa.Lookup:
		fr.set(instr, lookup(i, instr, fr.get(instr.X), fr.get(instr.Index)))

	case *ssa.MapUpdate:
		m := fr.get(instr.Map).(*gmap)
		i.mapInsert(m, fr.get(instr.Key), fr.get(instr.Value))

	case *ssa.TypeAssert:
		fr.set(instr, typeAssert(fr.i, instr, fr.get(instr.X).(iface)))

	case *ssa.MakeClosure:
		var bindings []value
		for _, binding := range instr.Bindings {
			bindings = append(bindings, fr.get(binding))
		}
		fr.set(instr, &closure{instr.Fn.(*ssa.Function), bindings})

	case *ssa.Phi:
		panic("unreachable") // phis are processed at block entry

	case *ssa.Select:
		fr.set(instr, selectOp(fr, instr))

	default:
		panic(fmt.Sprintf("unexpected instruction: %T", instr))
	}

	return kNext
}

func isScalarType(t types.Type) bool {
	switch t.Underlying().(type) {
	case *types.Basic, *types.Pointer:
		return true
	}
	return false
}

func selectOp(fr *frame, instr *ssa.Select) value {
	chosen := -1
	var recv value
	recvOk := false
	for k, st := range instr.States {
		ch := fr.get(st.Chan).(*gchan)
		if ch == nil {
			continue
		}
		if st.Dir == types.RecvOnly {
			if len(ch.buf) > 0 {
				chosen = k
				recv = ch.buf[0]
				ch.buf = ch.buf[1:]
				recvOk = true
				break
			}
			if ch.closed {
				chosen = k
				break
			}
		} else {
			if ch.closed {
				panic(targetPanic{fr.i.runtimeError("send on closed channel")})
			}
			ch.buf = append(ch.buf, fr.get(st.Send))
			chosen = k
			break
		}
	}
	if chosen < 0 && instr.Blocking {
		panic(unsupported("blocking select with no ready case in " + fr.fn.String()))
	}
	r := tuple{chosen, recvOk}
	for k, st := range instr.States {
		if st.Dir == types.RecvOnly {
			var v value
			if k == chosen && recvOk {
				v = recv
			} else {
				v = zero(st.Chan.Type().Underlying().(*types.Chan).Elem())
			}
			r = append(r, v)
		}
	}
	return r
}

// prepareCall determines the function value and argument values for a
// function call in a Call, Go or Defer instruction, performing
// interface method lookup if needed.
func prepareCall(fr *frame, call *ssa.CallCommon) (fn value, args []value) {
	v := fr.get(call.Value)
	args = make([]value, 0, len(call.Args)+1)
	if call.Method == nil {
		// Function call.
		fn = v
	} else {
		// Interface method invocation.
		recv := v.(iface)
		if recv.t == nil {
			panic(fr.i.nilDeref())
		}
		if recv.t == rtypeType {
			fn = rtypeMethod(call.Method.Name())
		} else if nm, ok := nativeTypes[recv.t]; ok {
			fn = nm(call.Method.Name())
		} else if recv.t == stubType {
			sig := call.Method.Type().(*types.Signature)
			fn = &nativeFunc{name: "stub." + call.Method.Name(), f: func(fr *frame, args []value) value { return zeroStubResults(sig) }}
		} else if f := lookupMethod(fr.i, recv.t, call.Method); f == nil {
			// Unreachable in well-typed programs.
			panic(fmt.Sprintf("method set for dynamic type %v does not contain %s", recv.t, call.Method))
		} else {
			fn = f
		}
		args = append(args, recv.v)
	}
	for _, arg := range call.Args {
		args = append(args, fr.get(arg))
	}
	return
}

// call interprets a call to a function (function, builtin or closure)
// fn with arguments args, returning its result.
// callpos is the position of the callsite.
func call(i *interpreter, caller *frame, callpos token.Pos, fn value, args []value) value {
	switch fn := fn.(type) {
	case *ssa.Function:
		if fn == nil {
			panic(i.nilDeref()) // nil of func type
		}
		return callSSA(i, caller, callpos, fn, args, nil)
	case *closure:
		return callSSA(i, caller, callpos, fn.Fn, args, fn.Env)
	case *ssa.Builtin:
		return callBuiltin(i, caller, callpos, fn, args)
	case *nativeFunc:
		return fn.f(&frame{i: i, caller: caller}, args)
	}
	panic(fmt.Sprintf("cannot call %T", fn))
}

// nativeFunc is a function value implemented by the engine (e.g. reflect.Swapper result).
type nativeFunc struct {
	name string
	f    func(fr *frame, args []value) value
}

func loc(fset *token.FileSet, pos token.Pos) string {
	if pos == token.NoPos {
		return ""
	}
	return " at " + fset.Position(pos).String()
}

const maxDepth = 3000

// callSSA interprets a call to function fn with arguments args,
// and lexical environment env, returning its result.
// callpos is the position of the callsite.
func callSSA(i *interpreter, caller *frame, callpos token.Pos, fn *ssa.Function, args []value, env []value) value {
	if i.tracing {
		fset := fn.Prog.Fset
		fmt.Fprintf(os.Stderr, "Entering %s%s.\n", fn, loc(fset, fn.Pos()))
		suffix := ""
		if caller != nil && caller.fn != nil {
			suffix = ", resuming " + caller.fn.String() + loc(fset, callpos)
		}
		defer fmt.Fprintf(os.Stderr, "Leaving %s%s.\n", fn, suffix)
	}
	fr := &frame{
		i:      i,
		caller: caller, // for panic/recover
		fn:     fn,
	}
	if caller != nil {
		fr.depth = caller.depth + 1
		if fr.depth > maxDepth {
			panic(pathAbort{kind: "depth", info: fn.String()})
		}
	}
	if fn.Parent() == nil {
		if ext := i.sh.external(fn); ext != nil {
			if i.tracing {
				fmt.Fprintln(os.Stderr, "\t(external)")
			}
			return ext(fr, args)
		}
		if fn.Blocks == nil {
			panic(unsupported("no code for function: " + fn.String()))
		}
		if fn.Synthetic == "package initializer" {
			// lazy initialisation: an initializer never initialises its imports eagerly.
			if caller != nil {
				return nil
			}
		}
	}
	if i.ps != nil {
		i.ps.noteCall(fn)
	}

	// generic function body?
	if fn.TypeParams().Len() > 0 && len(fn.TypeArgs()) == 0 {
		panic("interp requires ssa.BuilderMode to include InstantiateGenerics to execute generics")
	}

	fr.info = i.sh.fnInfo(fn)
	// Register files are pooled per function and reused without clearing: SSA guarantees every
	// value is defined before it is used (large functions have thousands of registers).
	if e, ok := fr.info.pool.Get().(*[]value); ok {
		fr.env = *e
		defer fr.info.pool.Put(e)
	} else {
		s := make([]value, fr.info.n)
		fr.env = s
		defer fr.info.pool.Put(&s)
	}
	fr.block = fn.Blocks[0]
	fr.locals = make([]value, len(fn.Locals))
	for k, l := range fn.Locals {
		fr.locals[k] = zero(deref(l.Type()))
		fr.set(l, &fr.locals[k])
	}
	for k, p := range fn.Params {
		fr.set(p, args[k])
	}
	for k, fv := range fn.FreeVars {
		fr.set(fv, env[k])
	}
	for fr.block != nil {
		runFrame(fr)
	}
	return fr.result
}

// runFrame executes SSA instructions starting at fr.block and
// continuing until a return, a panic, or a recovered panic.
func runFrame(fr *frame) {
	defer func() {
		if fr.block == nil {
			return // normal return
		}
		p := recover()
		switch p := p.(type) {
		case targetPanic:
			_ = p
		case pathAbort, unsupportedErr, engineError:
			panic(p)
		case runtime.Error:
			buf := make([]byte, 1<<14)
			n := runtime.Stack(buf, false)
			panic(engineError{fmt.Sprintf("%v in %s\n%s", p, fr.fn, buf[:n])})
		default:
			buf := make([]byte, 1<<12)
			n := runtime.Stack(buf, false)
			var chain []string
			for f := fr; f != nil && len(chain) < 25; f = f.caller {
				if f.fn != nil {
					chain = append(chain, f.fn.String())
				}
			}
			panic(engineError{fmt.Sprintf("%v in %s\ninterpreted stack: %s\n%s", p, fr.fn, strings.Join(chain, " <- "), buf[:n])})
		}
		fr.panicking = true
		fr.panic = p
		if fr.i.tracing {
			fmt.Fprintf(os.Stderr, "Panicking: %T %v.\n", fr.panic, fr.panic)
		}
		fr.runDefers()
		fr.block = fr.fn.Recover
		if fr.block == nil {
			// recovered, no named results: return zero values
			fr.result = zeroResults(fr.fn)
		}
	}()

	i := fr.i
	for {
		nonPhis := executePhis(fr)
		if i.ps != nil {
			i.ps.tick(fr, len(nonPhis))
		}
		for _, instr := range nonPhis {
			if i.tracing {
				if v, ok := instr.(ssa.Value); ok {
					fmt.Fprintln(os.Stderr, "\t", v.Name(), "=", instr)
				} else {
					fmt.Fprintln(os.Stderr, "\t", instr)
				}
			}
			if visitInstr(fr, instr) == kReturn {
				return
			}
			// Inv: kNext (continue) or kJump (last instr)
		}
	}
}

type engineError struct{ msg string }

func zeroResults(fn *ssa.Function) value {
	res := fn.Signature.Results()
	switch res.Len() {
	case 0:
		return nil
	case 1:
		return zero(res.At(0).Type())
	}
	t := make(tuple, res.Len())
	for k := range t {
		t[k] = zero(res.At(k).Type())
	}
	return t
}

// executePhis executes the phi-nodes at the start of the current
// block and returns the non-phi instructions.
func executePhis(fr *frame) []ssa.Instruction {
	firstNonPhi := -1
	for i, instr := range fr.block.Instrs {
		if _, ok := instr.(*ssa.Phi); !ok {
			firstNonPhi = i
			break
		}
	}
	// Inv: 0 <= firstNonPhi; every block contains a non-phi.

	nonPhis := fr.block.Instrs[firstNonPhi:]
	if firstNonPhi > 0 {
		phis := fr.block.Instrs[:firstNonPhi]
		predIndex := slices.Index(fr.block.Preds, fr.prevBlock)
		fr.phitemps = fr.phitemps[:0]
		for _, phi := range phis {
			phi := phi.(*ssa.Phi)
			fr.phitemps = append(fr.phitemps, fr.get(phi.Edges[predIndex]))
		}
		for i, phi := range phis {
			fr.set(phi.(*ssa.Phi), fr.phitemps[i])
		}
	}
	return nonPhis
}

// doRecover implements the recover() built-in.
func doRecover(caller *frame) value {
	// recover() must be exactly one level beneath the deferred
	// function (two levels beneath the panicking function) to
	// have any effect.
	if caller != nil && !caller.panicking &&
		caller.caller != nil && caller.caller.panicking {
		caller.caller.panicking = false
		p := caller.caller.panic
		caller.caller.panic = nil
		switch p := p.(type) {
		case targetPanic:
			// The target program explicitly called panic().
			if p.v == nil {
				return iface{}
			}
			if _, ok := p.v.(iface); !ok {
				if s, ok := p.v.(string); ok {
					return iface{caller.i.runtimeErrorString, s}
				}
			}
			return p.v
		default:
			panic(fmt.Sprintf("unexpected panic type %T in target call to recover()", p))
		}
	}
	return iface{}
}

// fnInfo numbers the SSA values of a function so that frames can keep them in a slice.
type fnInfo struct {
	slot map[ssa.Value]int32
	n    int
	pool sync.Pool
}

func (sh *shared) fnInfo(fn *ssa.Function) *fnInfo {
	if v, ok := sh.fnInfos.Load(fn); ok {
		return v.(*fnInfo)
	}
	inf := &fnInfo{slot: map[ssa.Value]int32{}}
	add := func(v ssa.Value) {
		if _, ok := inf.slot[v]; !ok {
			inf.slot[v] = int32(inf.n)
			inf.n++
		}
	}
	for _, p := range fn.Params {
		add(p)
	}
	for _, fv := range fn.FreeVars {
		add(fv)
	}
	for _, l := range fn.Locals {
		add(l)
	}
	for _, b := range fn.Blocks {
		for _, ins := range b.Instrs {
			if v, ok := ins.(ssa.Value); ok {
				add(v)
			}
		}
	}
	act, _ := sh.fnInfos.LoadOrStore(fn, inf)
	return act.(*fnInfo)
}

func (fr *frame) set(key ssa.Value, v value) {
	fr.env[fr.info.slot[key]] = v
}
