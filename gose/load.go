package main

// Loading /repo's current working tree with harness overlays, and building SSA.

import (
	"fmt"
	"go/types"
	"os"
	"path/filepath"
	"strings"

	"golang.org/x/tools/go/packages"
	"golang.org/x/tools/go/ssa"
	"golang.org/x/tools/go/ssa/ssautil"
)

// repoDir is the tree that is checked: /repo for every registered command. GOSE_REPO points the
// engine at a scratch worktree instead; it is only used by tools/tryseed_wt.sh to try a seeded
// change without touching /repo (results of such runs are never evidence).
var repoDir = func() string {
	if d := os.Getenv("GOSE_REPO"); d != "" {
		return d
	}
	return "/repo"
}()
const modulePath = "github.com/ChainSafe/gossamer"

type unitSpec struct {
	Pkg       string        `json:"pkg"`   // repo-relative directory
	Files     []string      `json:"files"` // harness files (relative to the spec dir)
	Harnesses []harnessSpec `json:"harnesses"`
}

type tierOpts struct {
	Steps    int64          `json:"steps"`
	MaxPaths int            `json:"max_paths"`
	TimeoutS int            `json:"timeout_s"`
	Fanout   int            `json:"fanout"`
	SolverMs int            `json:"solver_ms"`
	Params   map[string]int `json:"params"`
	Validate int            `json:"validate"`
	Skip     bool           `json:"skip"`
}

type harnessSpec struct {
	Func        string   `json:"func"`
	Quick       tierOpts `json:"quick"`
	Thorough    tierOpts `json:"thorough"`
	Termination bool     `json:"termination"` // step/depth bound exceeded is a violation candidate
	Note        string   `json:"note"`
}

type propSpec struct {
	Property    string     `json:"property"`
	Units       []unitSpec `json:"units"`
	Bounds      string     `json:"bounds"`
	Outside     string     `json:"outside"`
	Stubs       []string   `json:"stubs"`
	Assumptions []string   `json:"assumptions"`
	Helpers     []string   `json:"helpers"`
	dir         string
}

// overlayFor builds the overlay map (virtual path -> content) for a property.
func overlayFor(spec *propSpec, verifDir string) (map[string][]byte, error) {
	ov := map[string][]byte{}
	vrtSrc, err := os.ReadFile(filepath.Join(verifDir, "harness", "vrt", "vrt.go"))
	if err != nil {
		return nil, err
	}
	ov[filepath.Join(repoDir, "internal", "zzverif", "vrt", "vrt.go")] = vrtSrc
	extra, _ := filepath.Glob(filepath.Join(verifDir, "harness", "vrt", "*.go"))
	for _, f := range extra {
		if strings.HasSuffix(f, "_test.go") {
			continue
		}
		b, err := os.ReadFile(f)
		if err != nil {
			return nil, err
		}
		ov[filepath.Join(repoDir, "internal", "zzverif", "vrt", filepath.Base(f))] = b
	}
	// helper packages (virtual directories /repo/internal/zzverif/<name>)
	for _, h := range spec.Helpers {
		files, _ := filepath.Glob(filepath.Join(verifDir, "harness", "helpers", h, "*.go"))
		for _, f := range files {
			b, err := os.ReadFile(f)
			if err != nil {
				return nil, err
			}
			ov[filepath.Join(repoDir, "internal", "zzverif", h, filepath.Base(f))] = b
		}
	}
	for _, u := range spec.Units {
		for _, f := range u.Files {
			b, err := os.ReadFile(filepath.Join(spec.dir, f))
			if err != nil {
				return nil, err
			}
			ov[filepath.Join(repoDir, u.Pkg, "zz_verif_"+filepath.Base(f))] = b
		}
	}
	return ov, nil
}

type loaded struct {
	prog  *ssa.Program
	pkgs  map[string]*ssa.Package // by repo-relative dir
	sizes types.Sizes
}

func loadProgram(spec *propSpec, ov map[string][]byte) (*loaded, error) {
	var patterns []string
	seen := map[string]bool{}
	for _, u := range spec.Units {
		if !seen[u.Pkg] {
			seen[u.Pkg] = true
			patterns = append(patterns, "./"+u.Pkg)
		}
	}
	cfg := &packages.Config{
		Mode:       packages.LoadAllSyntax,
		Dir:        repoDir,
		Env:        append(os.Environ(), "GOFLAGS=-mod=mod", "GOPROXY=off", "GOSUMDB=off", "GOTOOLCHAIN=local", "CGO_ENABLED=0"),
		BuildFlags: []string{"-tags=purego,math_big_pure_go"},
		Overlay:    ov,
	}
	pkgs, err := packages.Load(cfg, patterns...)
	if err != nil {
		return nil, err
	}
	nerr := 0
	packages.Visit(pkgs, nil, func(p *packages.Package) {
		for _, e := range p.Errors {
			if nerr < 20 {
				fmt.Fprintf(os.Stderr, "load error: %s: %v\n", p.PkgPath, e)
			}
			nerr++
		}
	})
	if nerr > 0 {
		return nil, fmt.Errorf("%d package load errors", nerr)
	}
	prog, spkgs := ssautil.AllPackages(pkgs, ssa.InstantiateGenerics)
	prog.Build()
	res := &loaded{prog: prog, pkgs: map[string]*ssa.Package{}}
	for k, p := range pkgs {
		rel := strings.TrimPrefix(strings.TrimPrefix(p.PkgPath, modulePath), "/")
		res.pkgs[rel] = spkgs[k]
		if p.TypesSizes != nil {
			res.sizes = p.TypesSizes
		}
	}
	if res.sizes == nil {
		res.sizes = types.SizesFor("gc", "amd64")
	}
	return res, nil
}
