package main

import (
	"go/token"
	"go/types"
	"os"
	"sync"

	"golang.org/x/tools/go/ssa"
)

// Caches for type relations (go/types computes method sets and prints types on every call,
// which dominated the profile in type switches).

type typePair struct{ a, b types.Type }

var (
	implCache  sync.Map // typePair -> bool
	identCache sync.Map // typePair -> bool
	zeroKind   sync.Map
)

func (sh *shared) implements(t types.Type, it *types.Interface) bool {
	k := typePair{t, it}
	if v, ok := implCache.Load(k); ok {
		return v.(bool)
	}
	m, _ := types.MissingMethod(t, it, true)
	r := m == nil
	implCache.Store(k, r)
	return r
}

func (sh *shared) identical(a, b types.Type) bool {
	if a == b {
		return true
	}
	k := typePair{a, b}
	if v, ok := identCache.Load(k); ok {
		return v.(bool)
	}
	r := types.Identical(a, b)
	identCache.Store(k, r)
	return r
}

// boundsTerm is the condition "index t is below n" (unsigned; a negative signed index is huge).
// When n exceeds what t's width can hold the index is always in range.
func (i *interpreter) boundsTerm(t *Term, n int) *Term {
	if t.w < 64 && uint64(n) > mask(t.w) {
		return i.tb.tt
	}
	return i.tb.Cmp(opUlt, t, i.tb.Const(t.w, uint64(n)))
}

// symAddr is the address of elems[idx] for a symbolic idx that is only loaded through.
type symAddr struct {
	elems       []value
	idx         value
	tidx, telem types.Type
}

var onlyLoadedCache sync.Map

// onlyLoaded reports whether every use of the address computed by instr is a load.
func onlyLoaded(instr *ssa.IndexAddr) bool {
	if v, ok := onlyLoadedCache.Load(instr); ok {
		return v.(bool)
	}
	res := true
	refs := instr.Referrers()
	if refs == nil || len(*refs) == 0 {
		res = false
	} else {
		for _, r := range *refs {
			u, ok := r.(*ssa.UnOp)
			if !ok || u.Op != token.MUL {
				res = false
				break
			}
		}
	}
	onlyLoadedCache.Store(instr, res)
	return res
}

var noReplayCheck = os.Getenv("GOSE_NO_REPLAY_CHECK") != ""

// primarySolver is the solver the current run uses first (recorded in the evidence).
var primarySolver = solverZ3New

func (k solverKind) String() string {
	switch k {
	case solverZ3New:
		return "z3 5.1.0 (z3-new)"
	case solverCVC5:
		return "cvc5 1.0"
	}
	return "z3 4.8.12"
}
